// C04: MAC tags are the standard HMAC / AES-CMAC values and only those verify.
// Exhaustive enumeration (engine E1) of configurations x message lengths x tag mutations against
// RFC 2104 / RFC 4493 references written in verif/ref.
package main

import (
	"bytes"
	"fmt"
	"sync"

	"google.golang.org/protobuf/proto"

	"github.com/tink-crypto/tink-go/v2/core/registry"
	tinkpb "github.com/tink-crypto/tink-go/v2/proto/tink_go_proto"
	"github.com/tink-crypto/tink-go/v2/testkeyset"

	"github.com/tink-crypto/tink-go/v2/insecuresecretdataaccess"
	"github.com/tink-crypto/tink-go/v2/mac"
	"github.com/tink-crypto/tink-go/v2/mac/aescmac"
	"github.com/tink-crypto/tink-go/v2/mac/hmac"
	macsubtle "github.com/tink-crypto/tink-go/v2/mac/subtle"
	"github.com/tink-crypto/tink-go/v2/secretdata"
	"github.com/tink-crypto/tink-go/v2/tink"
	"github.com/tink-crypto/tink-go/v2/verifbridge/vb"
	"verif/h"
	"verif/ref"
	"verif/tk"
)

var hashes = []string{"SHA1", "SHA224", "SHA256", "SHA384", "SHA512"}
var hashTypes = map[string]hmac.HashType{"SHA1": hmac.SHA1, "SHA224": hmac.SHA224, "SHA256": hmac.SHA256, "SHA384": hmac.SHA384, "SHA512": hmac.SHA512}
var digest = map[string]int{"SHA1": 20, "SHA224": 28, "SHA256": 32, "SHA384": 48, "SHA512": 64}
var variants = []ref.Variant{ref.Tink, ref.Crunchy, ref.Legacy, ref.Raw}
var hmacVar = map[ref.Variant]hmac.Variant{ref.Tink: hmac.VariantTink, ref.Crunchy: hmac.VariantCrunchy, ref.Legacy: hmac.VariantLegacy, ref.Raw: hmac.VariantNoPrefix}
var cmacVar = map[ref.Variant]aescmac.Variant{ref.Tink: aescmac.VariantTink, ref.Crunchy: aescmac.VariantCrunchy, ref.Legacy: aescmac.VariantLegacy, ref.Raw: aescmac.VariantNoPrefix}

func ids(x *h.X) []uint32 {
	if x.Thorough() {
		return tk.IDs
	}
	return tk.IDs[:2]
}

type oracle func(msg []byte) []byte // full expected tag incl. prefix

// exercise checks one MAC object against the oracle over all message lengths and the mutation catalogue.
func exercise(x *h.X, m tink.MAC, want oracle, maxLen int, prefixLen int, otherPrefixes [][]byte, cfg string) {
	npat := 2
	if x.Thorough() {
		npat = 4
	}
	lengths := make([]int, 0, maxLen+200)
	for n := 0; n <= maxLen; n++ {
		lengths = append(lengths, n)
	}
	if maxLen >= 300 { // the long sweep also visits windows around powers of two up to 64 KiB (thorough) / 8 KiB
		pw := 13
		if x.Thorough() {
			pw = 16
		}
		lengths = append(lengths, ref.LongLengths(pw, 17)...)
	}
	var scratch []byte
	for _, n := range lengths {
		for p := 0; p < npat; p++ {
			kind := p + 2 // quick: counter and 0xA5^i patterns
			if x.Thorough() {
				kind = p
			}
			msg := ref.Pattern(kind, n)
			// the first call gets the message in a buffer the caller REUSES for every message (same slice, new contents):
			// a MAC that remembers its input by reference answers from an earlier call's contents
			if cap(scratch) < n {
				scratch = make([]byte, n+4096)
			}
			reused := scratch[:n:n]
			copy(reused, msg)
			t1, err1 := m.ComputeMAC(reused)
			t2, err2 := m.ComputeMAC(msg)
			x.Eval(1)
			if err1 != nil || err2 != nil {
				x.Fail("compute-error", "%s len=%d: ComputeMAC error %v / %v", cfg, n, err1, err2)
				return
			}
			exp := want(msg)
			if !bytes.Equal(t1, t2) {
				x.Fail("nondeterministic", "%s len=%d: two ComputeMAC calls differ: %x vs %x", cfg, n, t1, t2)
				return
			}
			if !bytes.Equal(t1, exp) {
				x.Fail("wrong-tag", "%s len=%d pattern=%d: ComputeMAC=%x reference=%x", cfg, n, p, t1, exp)
				return
			}
			if n > 0 {
				// back to back on the SAME slice with one byte rewritten in place
				reused[n/2] ^= 0x80
				edited := bytes.Clone(reused)
				tR, errR := m.ComputeMAC(reused)
				if errR != nil || !bytes.Equal(tR, want(edited)) {
					x.Fail("retains-argument", "%s len=%d: message buffer rewritten in place between two ComputeMAC calls: second tag %x, reference for the second contents %x (%v)", cfg, n, tR, want(edited), errR)
					return
				}
				if err := m.VerifyMAC(t1, reused); err == nil {
					x.Fail("retains-argument", "%s len=%d: message buffer rewritten in place: VerifyMAC still accepts the tag of the previous contents", cfg, n)
					return
				}
				reused[n/2] ^= 0x80
			}
			if err := m.VerifyMAC(t1, reused); err != nil {
				x.Fail("verify-own", "%s len=%d: VerifyMAC rejects own tag: %v", cfg, n, err)
				return
			}
			// cheap negative probes at every length: last bit flipped, one byte shorter, message extended by 00
			bad := bytes.Clone(t1)
			bad[len(bad)-1] ^= 1
			if m.VerifyMAC(bad, msg) == nil {
				x.Fail("accept-flip", "%s len=%d: tag with last bit flipped accepted", cfg, n)
				return
			}
			if m.VerifyMAC(t1[:len(t1)-1], msg) == nil {
				x.Fail("accept-trunc", "%s len=%d: tag truncated by one byte accepted", cfg, n)
				return
			}
			if m.VerifyMAC(t1, append(bytes.Clone(msg), 0)) == nil {
				x.Fail("accept-msg-ext", "%s len=%d: tag accepted for message||00", cfg, n)
				return
			}
			if n > 0 && m.VerifyMAC(t1, msg[:n-1]) == nil {
				x.Fail("accept-msg-trunc", "%s len=%d: tag accepted for truncated message", cfg, n)
				return
			}
			x.Eval(4)
		}
	}
	// full mutation catalogue on selected lengths
	lens := []int{0, 1, 16, 17, 64, 65}
	if x.Thorough() {
		lens = []int{0, 1, 15, 16, 17, 31, 32, 33, 55, 56, 63, 64, 65, 111, 112, 127, 128, 129}
	}
	for _, n := range lens {
		if n > maxLen {
			continue
		}
		msg := ref.Pattern(2, n)
		tag, err := m.ComputeMAC(msg)
		if err != nil {
			x.Fail("compute-error", "%s: %v", cfg, err)
			return
		}
		rej := func(key string, t, d []byte, what string) {
			x.Eval(1)
			if bytes.Equal(t, tag) && bytes.Equal(d, msg) {
				return
			}
			if m.VerifyMAC(t, d) == nil {
				x.Fail(key, "%s len=%d: VerifyMAC accepted %s (tag=%x)", cfg, n, what, t)
			}
		}
		for bit := 0; bit < 8*len(tag); bit++ {
			t := bytes.Clone(tag)
			t[bit/8] ^= 1 << (bit % 8)
			rej("accept-flip", t, msg, fmt.Sprintf("tag with bit %d flipped", bit))
		}
		for cut := 0; cut < len(tag); cut++ {
			rej("accept-trunc", tag[:cut], msg, fmt.Sprintf("tag truncated to %d bytes", cut))
		}
		for ext := 1; ext <= 3; ext++ {
			for _, b := range []byte{0, 0xff} {
				rej("accept-ext", append(bytes.Clone(tag), bytes.Repeat([]byte{b}, ext)...), msg, fmt.Sprintf("tag extended by %d bytes", ext))
			}
		}
		// the full-size reference tag (tag size+1 .. ) must be rejected when tag size is shorter
		for _, op := range otherPrefixes {
			t := append(bytes.Clone(op), tag[prefixLen:]...)
			rej("accept-prefix", t, msg, fmt.Sprintf("tag under prefix %x", op))
		}
		if prefixLen > 0 {
			rej("accept-noprefix", tag[prefixLen:], msg, "tag without its prefix")
			rej("accept-dupprefix", append(bytes.Clone(tag[:prefixLen]), tag...), msg, "tag with duplicated prefix")
		}
		for i := 0; i < n; i++ {
			d := bytes.Clone(msg)
			d[i] ^= 0x01
			rej("accept-msg-mod", tag, d, fmt.Sprintf("message with byte %d altered", i))
		}
		rej("accept-msg-ext", tag, append(bytes.Clone(msg), 0), "message||00 (LEGACY suffix confusion)")
		if n > 0 && msg[n-1] == 0 {
			rej("accept-msg-trunc", tag, msg[:n-1], "message without trailing 00")
		}
		rej("accept-nil", nil, msg, "nil tag")
	}
}

func otherPrefixes(v ref.Variant, id uint32) [][]byte {
	var out [][]byte
	for _, ov := range variants {
		for _, oid := range []uint32{id, id ^ 1, id ^ 0x80000000} {
			p := ref.Prefix(ov, oid)
			if !bytes.Equal(p, ref.Prefix(v, id)) {
				out = append(out, p)
			}
		}
	}
	return out
}

func hmacSection(x *h.X) {
	hash := h.Pick(x, "hash", hashes)
	ksizes := []int{16, 32, 64, 65, 129}
	if x.Thorough() {
		ksizes = []int{16, 17, 32, 63, 64, 65, 127, 128, 129, 200}
	}
	ksize := h.Pick(x, "keysize", ksizes)
	var tsizes []int
	d := digest[hash]
	if x.Thorough() {
		for t := 10; t <= d; t++ {
			tsizes = append(tsizes, t)
		}
	} else {
		tsizes = []int{10, 11, 16, d - 1, d}
	}
	tsize := h.Pick(x, "tagsize", tsizes)
	v := h.Pick(x, "variant", variants)
	id := h.Pick(x, "id", ids(x))
	path := h.Pick(x, "path", []string{"mac.New(handle)", "hmac.NewMAC", "proto-handle", "subtle.NewHMAC"})
	if path == "subtle.NewHMAC" && (v != ref.Raw || id != ids(x)[0]) {
		return
	}
	kb := ref.KeyBytes(fmt.Sprintf("hmac-%s-%d", hash, ksize), ksize)
	cfg := fmt.Sprintf("HMAC %s key=%d tag=%d %v id=%#x via %s", hash, ksize, tsize, v, id, path)
	var m tink.MAC
	if path == "subtle.NewHMAC" {
		mm, err := macsubtle.NewHMAC(hash, bytes.Clone(kb), uint32(tsize))
		if err != nil {
			x.Fail("construct", "%s: %v", cfg, err)
			return
		}
		m = mm
	} else {
		params, err := hmac.NewParameters(hmac.ParametersOpts{KeySizeInBytes: ksize, TagSizeInBytes: tsize, HashType: hashTypes[hash], Variant: hmacVar[v]})
		if err != nil {
			x.Fail("construct", "%s: NewParameters: %v", cfg, err)
			return
		}
		kid := id
		if v == ref.Raw {
			kid = 0
		}
		k, err := hmac.NewKey(secretdata.NewBytesFromData(bytes.Clone(kb), insecuresecretdataaccess.Token{}), params, kid)
		if err != nil {
			x.Fail("construct", "%s: NewKey: %v", cfg, err)
			return
		}
		if !bytes.Equal(k.OutputPrefix(), ref.Prefix(v, id)) {
			x.Fail("prefix", "%s: OutputPrefix=%x want %x", cfg, k.OutputPrefix(), ref.Prefix(v, id))
		}
		if got, want := params.TotalTagSizeInBytes(), len(ref.Prefix(v, id))+tsize; got != want {
			x.Fail("total-tag-size", "%s: Parameters.TotalTagSizeInBytes()=%d, a tag has %d bytes", cfg, got, want)
		}
		switch path {
		case "hmac.NewMAC":
			m, err = hmac.NewMAC(k, vb.Tok())
		case "mac.New(handle)":
			hd, e := tk.Single(k)
			if e != nil {
				x.Fail("construct", "%s: %v", cfg, e)
				return
			}
			m, err = mac.New(hd)
		default:
			hd, e := tk.Handle([]tk.Entry{{Key: k, ID: id, Primary: true}})
			if e != nil {
				x.Fail("construct", "%s: %v", cfg, e)
				return
			}
			m, err = mac.New(hd)
		}
		if err != nil {
			x.Fail("construct", "%s: %v", cfg, err)
			return
		}
	}
	pre := ref.Prefix(v, id)
	want := func(msg []byte) []byte {
		d := msg
		if v == ref.Legacy {
			d = append(bytes.Clone(msg), 0)
		}
		return append(bytes.Clone(pre), ref.HMAC(hash, kb, d)[:tsize]...)
	}
	x.NonTrivial()
	x.Outcome("hmac/" + hash + "/" + v.String())
	// every length over several hash blocks (HMAC) / many AES blocks (CMAC): chunked processing of leading
	// blocks only shows for particular length classes
	maxLen := 330
	if hash == "SHA384" || hash == "SHA512" {
		maxLen = 520
	}
	if id != ids(x)[0] || (x.Thorough() && path != "hmac.NewMAC" && tsize != 10 && tsize != d) {
		// the long sweep once per (hash, key size, variant[, path]): other ids only change the prefix, and in the
		// thorough tier the other construction paths get it at the two extreme tag sizes
		maxLen = 2*maxLen/5 - 2
	}
	exercise(x, m, want, maxLen, len(pre), otherPrefixes(v, id), cfg)
}

// cmacKeys returns deterministic keys of the given size covering all four (msb L, msb K1) combinations.
func cmacKeys(size int) [][]byte {
	seen := map[[2]bool][]byte{}
	for i := 0; len(seen) < 4 && i < 1000; i++ {
		k := ref.KeyBytes(fmt.Sprintf("cmac-%d-%d", size, i), size)
		a, b := ref.CMACSubkeyMSBs(k)
		if _, ok := seen[[2]bool{a, b}]; !ok {
			seen[[2]bool{a, b}] = k
		}
	}
	return [][]byte{seen[[2]bool{false, false}], seen[[2]bool{false, true}], seen[[2]bool{true, false}], seen[[2]bool{true, true}]}
}

func cmacSection(x *h.X) {
	path := h.Pick(x, "path", []string{"mac.New(handle)", "aescmac.NewMAC", "proto-handle", "subtle.NewAESCMAC"})
	sizes := []int{32}
	if path == "subtle.NewAESCMAC" {
		sizes = []int{16, 24, 32}
	} else if path != "mac.New(handle)" {
		// key objects admit 16 and 32; mac.New applies the recommended-size check (32 only)
		sizes = []int{32}
	}
	ksize := h.Pick(x, "keysize", sizes)
	keys := cmacKeys(ksize)
	ki := x.Choose("key(msbL,msbK1)", 4)
	kb := keys[ki]
	x.Label(fmt.Sprintf("%02b", ki))
	tsize := h.Pick(x, "tagsize", []int{10, 11, 12, 13, 14, 15, 16})
	v := h.Pick(x, "variant", variants)
	id := h.Pick(x, "id", ids(x))
	if path == "subtle.NewAESCMAC" && (v != ref.Raw || id != ids(x)[0]) {
		return
	}
	cfg := fmt.Sprintf("AES-CMAC key=%d(msb %02b) tag=%d %v id=%#x via %s", ksize, ki, tsize, v, id, path)
	var m tink.MAC
	if path == "subtle.NewAESCMAC" {
		mm, err := macsubtle.NewAESCMAC(bytes.Clone(kb), uint32(tsize))
		if err != nil {
			x.Fail("construct", "%s: %v", cfg, err)
			return
		}
		m = mm
	} else {
		params, err := aescmac.NewParameters(aescmac.ParametersOpts{KeySizeInBytes: ksize, TagSizeInBytes: tsize, Variant: cmacVar[v]})
		if err != nil {
			x.Fail("construct", "%s: NewParameters: %v", cfg, err)
			return
		}
		kid := id
		if v == ref.Raw {
			kid = 0
		}
		k, err := aescmac.NewKey(secretdata.NewBytesFromData(bytes.Clone(kb), insecuresecretdataaccess.Token{}), params, kid)
		if err != nil {
			x.Fail("construct", "%s: NewKey: %v", cfg, err)
			return
		}
		if !bytes.Equal(k.OutputPrefix(), ref.Prefix(v, id)) {
			x.Fail("prefix", "%s: OutputPrefix=%x want %x", cfg, k.OutputPrefix(), ref.Prefix(v, id))
		}
		if got, want := params.TotalTagSizeInBytes(), len(ref.Prefix(v, id))+tsize; got != want {
			x.Fail("total-tag-size", "%s: Parameters.TotalTagSizeInBytes()=%d, a tag has %d bytes", cfg, got, want)
		}
		switch path {
		case "aescmac.NewMAC":
			m, err = aescmac.NewMAC(k, vb.Tok())
		case "mac.New(handle)":
			hd, e := tk.Single(k)
			if e != nil {
				x.Fail("construct", "%s: %v", cfg, e)
				return
			}
			m, err = mac.New(hd)
		default:
			hd, e := tk.Handle([]tk.Entry{{Key: k, ID: id, Primary: true}})
			if e != nil {
				x.Fail("construct", "%s: %v", cfg, e)
				return
			}
			m, err = mac.New(hd)
		}
		if err != nil {
			x.Fail("construct", "%s: %v", cfg, err)
			return
		}
	}
	pre := ref.Prefix(v, id)
	want := func(msg []byte) []byte {
		d := msg
		if v == ref.Legacy {
			d = append(bytes.Clone(msg), 0)
		}
		return append(bytes.Clone(pre), ref.CMAC(kb, d)[:tsize]...)
	}
	x.NonTrivial()
	x.Outcome(fmt.Sprintf("cmac/%d/msb%02b/%v", ksize, ki, v))
	exercise(x, m, want, 700, len(pre), otherPrefixes(v, id), cfg)
}

// invalidSection: parameter combinations the property excludes must be refused, not silently weakened.
func invalidSection(x *h.X) {
	hash := h.Pick(x, "hash", hashes)
	d := digest[hash]
	for _, ks := range []int{0, 1, 15} {
		if _, err := hmac.NewParameters(hmac.ParametersOpts{KeySizeInBytes: ks, TagSizeInBytes: 16, HashType: hashTypes[hash], Variant: hmac.VariantTink}); err == nil {
			x.Fail("weak-accepted", "HMAC %s key size %d accepted by NewParameters", hash, ks)
		}
		if _, err := macsubtle.NewHMAC(hash, make([]byte, ks), 16); err == nil {
			x.Fail("weak-accepted", "HMAC %s key size %d accepted by subtle.NewHMAC", hash, ks)
		}
		x.Eval(2)
	}
	for _, ts := range []int{0, 1, 9, d + 1, d + 100} {
		if _, err := hmac.NewParameters(hmac.ParametersOpts{KeySizeInBytes: 32, TagSizeInBytes: ts, HashType: hashTypes[hash], Variant: hmac.VariantTink}); err == nil {
			x.Fail("weak-accepted", "HMAC %s tag size %d accepted by NewParameters", hash, ts)
		}
		if _, err := macsubtle.NewHMAC(hash, make([]byte, 32), uint32(ts)); err == nil {
			x.Fail("weak-accepted", "HMAC %s tag size %d accepted by subtle.NewHMAC", hash, ts)
		}
		x.Eval(2)
	}
	for _, ts := range []int{0, 9, 17} {
		if _, err := aescmac.NewParameters(aescmac.ParametersOpts{KeySizeInBytes: 32, TagSizeInBytes: ts, Variant: aescmac.VariantTink}); err == nil {
			x.Fail("weak-accepted", "AES-CMAC tag size %d accepted", ts)
		}
		if _, err := macsubtle.NewAESCMAC(make([]byte, 32), uint32(ts)); err == nil {
			x.Fail("weak-accepted", "AES-CMAC tag size %d accepted by subtle", ts)
		}
		x.Eval(2)
	}
	x.NonTrivial()
	x.Outcome("refused")
}

// ---- legacy (non-full) MAC primitive behind mac_factory's fullMACAdapter ---------------------------------------
// A custom key manager whose Primitive() is a raw (prefix-less) MAC computed by the REFERENCE HMAC: the factory
// must add the output prefix and, for the LEGACY prefix type, append 0x00 to the message.

const legacyURL = "type.googleapis.com/verif.c04.RawReferenceHmacKey"

type refMAC struct{ key []byte }

func (m refMAC) ComputeMAC(data []byte) ([]byte, error) {
	return ref.HMAC("SHA256", m.key, data)[:16], nil
}
func (m refMAC) VerifyMAC(tag, data []byte) error {
	if !bytes.Equal(tag, ref.HMAC("SHA256", m.key, data)[:16]) {
		return fmt.Errorf("invalid mac")
	}
	return nil
}

type legacyKM struct{}

func (legacyKM) Primitive(b []byte) (any, error)            { return refMAC{bytes.Clone(b)}, nil }
func (legacyKM) NewKey([]byte) (proto.Message, error)       { return nil, fmt.Errorf("unsupported") }
func (legacyKM) DoesSupport(u string) bool                  { return u == legacyURL }
func (legacyKM) TypeURL() string                            { return legacyURL }
func (legacyKM) NewKeyData([]byte) (*tinkpb.KeyData, error) { return nil, fmt.Errorf("unsupported") }

var legacyOnce sync.Once

func legacySection(x *h.X) {
	legacyOnce.Do(func() {
		if err := registry.RegisterKeyManager(legacyKM{}); err != nil {
			panic(err)
		}
	})
	pts := []tinkpb.OutputPrefixType{tinkpb.OutputPrefixType_TINK, tinkpb.OutputPrefixType_CRUNCHY, tinkpb.OutputPrefixType_LEGACY, tinkpb.OutputPrefixType_RAW}
	pi := x.Choose("prefix-type", 4)
	pt := pts[pi]
	v := variants[pi]
	x.Label(v.String())
	id := h.Pick(x, "id", tk.IDs)
	kb := ref.KeyBytes("c04-legacy", 32)
	ks := &tinkpb.Keyset{PrimaryKeyId: id, Key: []*tinkpb.Keyset_Key{{KeyData: &tinkpb.KeyData{TypeUrl: legacyURL, Value: kb, KeyMaterialType: tinkpb.KeyData_SYMMETRIC},
		Status: tinkpb.KeyStatusType_ENABLED, KeyId: id, OutputPrefixType: pt}}}
	hd, err := testkeyset.NewHandle(ks)
	cfg := fmt.Sprintf("legacy raw MAC primitive behind the factory adapter, %v id=%#x", v, id)
	if err != nil {
		x.Fail("construct", "%s: %v", cfg, err)
		return
	}
	m, err := mac.New(hd)
	if err != nil {
		x.Fail("construct", "%s: %v", cfg, err)
		return
	}
	pre := ref.Prefix(v, id)
	want := func(msg []byte) []byte {
		d := msg
		if v == ref.Legacy {
			d = append(bytes.Clone(msg), 0)
		}
		return append(bytes.Clone(pre), ref.HMAC("SHA256", kb, d)[:16]...)
	}
	x.NonTrivial()
	x.Outcome("legacy-adapter/" + v.String())
	exercise(x, m, want, 130, len(pre), otherPrefixes(v, id), cfg)
}

func main() {
	h.Main("C04", "exploration",
		"product of (hash x key size x tag size x variant x id x construction path) x every message length 0..130/260 (HMAC) / 0..80 (CMAC, keys covering all msb(L),msb(K1) branches) x patterns; tag compared byte-for-byte with an RFC 2104 / RFC 4493 reference; mutation catalogue (every bit flip, every truncation, extensions, foreign prefixes, message edits) must be rejected. A case is non-trivial when a MAC object was built and exercised; distinct = distinct choice vectors.",
		[]h.Section{
			{Name: "hmac", Body: hmacSection, Bound: -1},
			{Name: "aescmac", Body: cmacSection, Bound: -1},
			{Name: "invalid-params", Body: invalidSection, Bound: -1},
			{Name: "legacy-adapter", Body: legacySection, Bound: -1},
			{Name: "mac-keyset-prefix-collision", Body: collisionSection, Bound: -1},
		})
}
