package main

// Section mac-keyset-prefix-collision: FORCED output-prefix collisions in the keyset wrapper (mac_factory.go). MACs
// are deterministic, so the reference can search a message whose RAW tag starts with 0x01 (0x00) and give the
// keyset's TINK (CRUNCHY) key the next four bytes as its id: a valid RAW-key tag that carries another enabled key's
// prefix. VerifyMAC accepts (tag, message) iff the tag is the ComputeMAC value of an enabled key: the colliding RAW
// tag must verify in every key order, whichever key is primary; with the RAW key disabled it must not.

import (
	"bytes"
	"encoding/binary"
	"fmt"

	"github.com/tink-crypto/tink-go/v2/insecuresecretdataaccess"
	"github.com/tink-crypto/tink-go/v2/key"
	"github.com/tink-crypto/tink-go/v2/mac"
	"github.com/tink-crypto/tink-go/v2/mac/aescmac"
	"github.com/tink-crypto/tink-go/v2/mac/hmac"
	tinkpb "github.com/tink-crypto/tink-go/v2/proto/tink_go_proto"
	"github.com/tink-crypto/tink-go/v2/secretdata"
	"verif/h"
	"verif/ref"
	"verif/tk"
)

func collisionSection(x *h.X) {
	alg := h.Pick(x, "raw-key-algorithm", []string{"HMAC-SHA256/16", "AES-CMAC/16"})
	v := h.Pick(x, "prefixed-variant", []ref.Variant{ref.Tink, ref.Crunchy})
	rawFirst := x.Choose("raw-first", 2) == 1
	primary := x.Choose("primary", 2) // 0 = the RAW key, 1 = the prefixed key
	rawOff := x.Choose("raw-status(EN,DIS,DES)", 3)
	if rawOff > 0 && primary == 0 {
		return
	}
	kbR, kbP := ref.KeyBytes("c04-coll-raw", 32), ref.KeyBytes("c04-coll-pre", 32)
	rawTag := func(m []byte) []byte {
		if alg == "AES-CMAC/16" {
			return ref.CMAC(kbR, m)[:16]
		}
		return ref.HMAC("SHA256", kbR, m)[:16]
	}
	mkRaw := func() (key.Key, error) {
		if alg == "AES-CMAC/16" {
			p, err := aescmac.NewParameters(aescmac.ParametersOpts{KeySizeInBytes: 32, TagSizeInBytes: 16, Variant: aescmac.VariantNoPrefix})
			if err != nil {
				return nil, err
			}
			return aescmac.NewKey(secretdata.NewBytesFromData(bytes.Clone(kbR), insecuresecretdataaccess.Token{}), p, 0)
		}
		p, err := hmac.NewParameters(hmac.ParametersOpts{KeySizeInBytes: 32, TagSizeInBytes: 16, HashType: hmac.SHA256, Variant: hmac.VariantNoPrefix})
		if err != nil {
			return nil, err
		}
		return hmac.NewKey(secretdata.NewBytesFromData(bytes.Clone(kbR), insecuresecretdataaccess.Token{}), p, 0)
	}
	lead := ref.Prefix(v, 0)[0]
	var msg, tag []byte
	for c := 0; c < 1<<16; c++ {
		cand := append([]byte("c04 prefix collision "), byte(c), byte(c>>8))
		if t := rawTag(cand); t[0] == lead {
			msg, tag = cand, t
			break
		}
	}
	if msg == nil {
		x.Fail("harness", "no message found whose RAW tag starts with %#x", lead)
		return
	}
	id := binary.BigEndian.Uint32(tag[1:5])
	kr, err := mkRaw()
	if err != nil {
		x.Fail("construct", "raw key: %v", err)
		return
	}
	pp, err := hmac.NewParameters(hmac.ParametersOpts{KeySizeInBytes: 32, TagSizeInBytes: 16, HashType: hmac.SHA256, Variant: hmacVar[v]})
	if err != nil {
		x.Fail("construct", "prefixed key: %v", err)
		return
	}
	kp, err := hmac.NewKey(secretdata.NewBytesFromData(bytes.Clone(kbP), insecuresecretdataaccess.Token{}), pp, id)
	if err != nil {
		x.Fail("construct", "prefixed key: %v", err)
		return
	}
	rawSt := []tinkpb.KeyStatusType{tinkpb.KeyStatusType_ENABLED, tinkpb.KeyStatusType_DISABLED, tinkpb.KeyStatusType_DESTROYED}[rawOff]
	er := tk.Entry{Key: kr, ID: id ^ 0x55, Status: rawSt, Primary: primary == 0}
	ep := tk.Entry{Key: kp, ID: id, Status: tinkpb.KeyStatusType_ENABLED, Primary: primary == 1}
	es := []tk.Entry{ep, er}
	if rawFirst {
		es = []tk.Entry{er, ep}
	}
	hd, err := tk.Handle(es)
	if err != nil {
		x.Fail("construct", "keyset: %v", err)
		return
	}
	m, err := mac.New(hd)
	if err != nil {
		x.Fail("construct", "mac.New: %v", err)
		return
	}
	x.NonTrivial()
	cfg := fmt.Sprintf("MAC keyset [RAW %s (%v) + HMAC-SHA256 %v id=%#x] rawFirst=%v primary=%d", alg, rawSt, v, id, rawFirst, primary)
	err = m.VerifyMAC(bytes.Clone(tag), msg)
	x.Eval(1)
	if rawOff > 0 {
		x.Outcome("collision/raw-not-enabled-rejected")
		if err == nil {
			x.Fail("accept-disabled-key", "%s: the tag of the non-enabled RAW key is accepted", cfg)
		}
	} else {
		x.Outcome("collision/raw-accepted")
		if err != nil {
			x.Fail("reject-valid", "%s: the RAW key's tag %x starts with the other key's output prefix and is rejected: %v", cfg, tag, err)
		}
	}
	own := append(ref.Prefix(v, id), ref.HMAC("SHA256", kbP, msg)[:16]...)
	if err := m.VerifyMAC(bytes.Clone(own), msg); err != nil {
		x.Fail("reject-valid", "%s: the prefixed key's tag is rejected: %v", cfg, err)
	}
	got, err := m.ComputeMAC(msg)
	want := tag
	if primary == 1 {
		want = own
	}
	x.Eval(2)
	if err != nil || !bytes.Equal(got, want) {
		x.Fail("wrong-tag", "%s: ComputeMAC = %x (%v), want the primary's value %x", cfg, got, err, want)
	}
	bad := bytes.Clone(tag)
	bad[len(bad)-1] ^= 1
	if err := m.VerifyMAC(bad, msg); err == nil {
		x.Fail("accept-forgery", "%s: modified colliding tag accepted", cfg)
	}
	if err := m.VerifyMAC(bytes.Clone(tag), append(bytes.Clone(msg), 0)); err == nil {
		x.Fail("accept-forgery", "%s: colliding tag accepted for another message", cfg)
	}
	x.Eval(2)
}
