// Package keycat is the one place of the C12/C13 harnesses that knows, for every key type URL in the
// tink-go tree, how to construct parameters over a deliberately too-large domain ("valid" = the type's
// own NewParameters accepts) and keys with deterministic material (incl. leading-zero big-integer
// shapes), plus one representative key per type URL and the primitive class of each type.
package keycat

import (
	"fmt"
	"sort"
	"strings"
	"sync"

	"github.com/tink-crypto/tink-go/v2/insecuresecretdataaccess"
	"github.com/tink-crypto/tink-go/v2/key"
	tinkpb "github.com/tink-crypto/tink-go/v2/proto/tink_go_proto"
	"github.com/tink-crypto/tink-go/v2/secretdata"
	"verif/ref"
)

const URLPrefix = "type.googleapis.com/google.crypto.tink."

type Class int

const (
	ClassNone Class = iota
	ClassAEAD
	ClassDAEAD
	ClassMAC
	ClassPRF
	ClassStreaming
	ClassSign
	ClassVerify
	ClassHybridDecrypt
	ClassHybridEncrypt
	ClassJWTMAC
	ClassJWTSign
	ClassJWTVerify
	ClassDeriver
)

func (c Class) String() string {
	return [...]string{"none", "aead", "daead", "mac", "prf", "streamingaead", "sign", "verify", "hybriddecrypt", "hybridencrypt", "jwtmac", "jwtsign", "jwtverify", "keyderiver"}[c]
}

// PublicOf is the class of the public half of a private-key class.
func (c Class) PublicOf() Class {
	switch c {
	case ClassSign:
		return ClassVerify
	case ClassHybridDecrypt:
		return ClassHybridEncrypt
	case ClassJWTSign:
		return ClassJWTVerify
	}
	return ClassNone
}

// Mat is one byte string of key material of a key.
type Mat struct {
	Name   string
	B      []byte
	Secret bool
	BigInt bool   // big-endian integer: encodings may add/strip leading zero bytes
	Field  string // proto field name that must carry this value in the wire form ("" = any bytes field)
}

// KeyCase is one concrete key built by the catalogue.
type KeyCase struct {
	Fam     *Family
	Desc    string
	P       key.Parameters
	Variant ref.KSVariant
	ID      uint32  // ID requirement (0 when the variant has none)
	Key     key.Key // symmetric or private key
	Pub     key.Key // public key built independently of Key (nil for symmetric types)
	Mat     []Mat
}

func (kc *KeyCase) Secrets() [][]byte {
	var out [][]byte
	for _, m := range kc.Mat {
		if m.Secret {
			out = append(out, m.B)
		}
	}
	return out
}

// EmitFn receives every candidate of a family's parameter domain. declared=false marks a candidate
// with an enum value that is not a declared constant of the enum type (out-of-range integer).
type EmitFn func(desc string, declared bool, v ref.KSVariant, p key.Parameters, err error)

// Shard selects a part of a parameter domain (I of N). A family with a large domain filters its
// outermost loop with Outer; otherwise the consumer filters by candidate index (Mine).
type Shard struct {
	I, N      int
	usedOuter bool
	n         int
}

// Whole is the trivial shard.
func Whole() *Shard { return &Shard{0, 1, false, 0} }

func (s *Shard) Outer(i int) bool { s.usedOuter = true; return i%s.N == s.I }

// Mine reports whether the next candidate belongs to this shard (call once per candidate).
func (s *Shard) Mine() bool {
	if s.usedOuter {
		return true
	}
	s.n++
	return (s.n-1)%s.N == s.I
}

// Family describes one key type (one type URL, or a private/public pair of type URLs).
type Family struct {
	Name     string // short name, e.g. "AesGcm"
	URL      string // type URL of the symmetric / private key
	PubURL   string // type URL of the public key ("" for symmetric types)
	Label    tinkpb.KeyData_KeyMaterialType
	Class    Class
	NoPrefix bool // key type has no OutputPrefix() (PRF, streaming, JWT, deriver)
	// Enum enumerates the over-large parameter domain.
	Enum func(th bool, sh *Shard, emit EmitFn)
	// Keys builds the keys (all material shapes) for valid parameters; (nil, nil) = this parameter
	// point is outside the key domain of the catalogue (parameters-only round trip).
	Keys func(p key.Parameters, v ref.KSVariant, id uint32, th bool) ([]*KeyCase, error)
	// Rep returns the representative parameters of the type (one per variant index; idx wraps).
	Rep func(idx int) (key.Parameters, ref.KSVariant)
	// KeysOnly (types without a Parameters class: served by the FallbackProtoKey path) builds all keys.
	KeysOnly func(id uint32, th bool) ([]*KeyCase, error)
}

// RepKey builds the representative key of the family for variant index idx and key ID id.
func (f *Family) RepKey(idx int, id uint32) (*KeyCase, error) {
	var ks []*KeyCase
	var err error
	if f.KeysOnly != nil {
		ks, err = f.KeysOnly(id, false)
		if err == nil && len(ks) > 0 {
			return ks[idx%len(ks)], nil
		}
	} else {
		p, v := f.Rep(idx)
		ks, err = f.Keys(p, v, id, false)
	}
	if err != nil {
		return nil, err
	}
	if len(ks) == 0 {
		return nil, fmt.Errorf("keycat: no representative key for %s", f.Name)
	}
	return ks[0], nil
}

// NumReps is the number of distinct representative parameter sets (variants) of the family.
func (f *Family) NumReps() int {
	if f.KeysOnly != nil {
		return 4
	}
	seen := map[ref.KSVariant]bool{}
	n := 0
	for i := 0; i < 5; i++ {
		_, v := f.Rep(i)
		if seen[v] {
			break
		}
		seen[v] = true
		n++
	}
	if f.NoPrefix && f.Class >= ClassJWTMAC && f.Class <= ClassJWTVerify {
		return 3
	}
	return n
}

func (f *Family) ShortURL() string {
	return strings.TrimPrefix(strings.TrimPrefix(f.URL, URLPrefix), "type.googleapis.com/")
}
func (f *Family) ShortPubURL() string { return strings.TrimPrefix(f.PubURL, URLPrefix) }

var (
	families []*Family
	byName   = map[string]*Family{}
)

func register(f *Family) {
	families = append(families, f)
	byName[f.Name] = f
}

// Families returns all families in a fixed order.
func Families() []*Family {
	once.Do(func() {
		sort.SliceStable(families, func(i, j int) bool { return families[i].Name < families[j].Name })
	})
	return families
}

var once sync.Once

func ByName(n string) *Family { Families(); return byName[n] }

// ---- helpers ------------------------------------------------------------------------------------

func sb(b []byte) secretdata.Bytes {
	return secretdata.NewBytesFromData(append([]byte{}, b...), insecuresecretdataaccess.Token{})
}

func SecretBytes(s secretdata.Bytes) []byte { return s.Data(insecuresecretdataaccess.Token{}) }

// Sizes is the over-large size domain.
func Sizes(th bool) []int {
	if th {
		out := make([]int, 0, 80)
		for i := 0; i <= 70; i++ {
			out = append(out, i)
		}
		return append(out, 96, 128, 129, 255, 256, 1024)
	}
	return []int{0, 1, 9, 10, 11, 12, 13, 15, 16, 17, 20, 24, 28, 31, 32, 33, 47, 48, 49, 63, 64, 65, 70, 128}
}

// SmallSizes is a boundary-only size domain used for the inner dimensions of large products.
func SmallSizes(th bool) []int {
	if th {
		return []int{0, 1, 9, 10, 11, 12, 13, 14, 15, 16, 17, 19, 20, 21, 24, 27, 28, 29, 31, 32, 33, 47, 48, 49, 63, 64, 65, 70, 128}
	}
	return []int{0, 10, 12, 15, 16, 17, 20, 32, 33, 48, 64, 65}
}

// symShapes: deterministic byte-string key material of length n.
func symShapes(label string, n int, th bool) []Mat {
	out := []Mat{{Name: "rnd", B: ref.KeyBytes(label, n), Secret: true}}
	if n > 0 {
		out = append(out, Mat{Name: "zero", B: make([]byte, n), Secret: true})
	}
	if th && n > 1 {
		lz := ref.KeyBytes(label+"/lz", n)
		lz[0] = 0
		ff := make([]byte, n)
		for i := range ff {
			ff[i] = 0xff
		}
		out = append(out, Mat{Name: "lz", B: lz, Secret: true}, Mat{Name: "ff", B: ff, Secret: true})
	}
	return out
}

// enumRange returns lo..hi.
func enumRange(lo, hi int) []int {
	var out []int
	for i := lo; i <= hi; i++ {
		out = append(out, i)
	}
	return out
}

var cache sync.Map

func cached[T any](k string, f func() T) T {
	if v, ok := cache.Load(k); ok {
		return v.(T)
	}
	v := f()
	a, _ := cache.LoadOrStore(k, v)
	return a.(T)
}

// ECMat is one NIST-curve / X25519 key pair.
type ECMat struct {
	Shape  string
	Scalar []byte
	Pub    []byte // 04||X||Y or 32-byte u
}

// ecShapes returns deterministic key pairs of the curve: a random one, one whose private scalar has a
// leading zero byte, one whose X and one whose Y coordinate has a leading zero byte (thorough: scalar 1
// and a scalar with two leading zero bytes).
func ecShapes(curve string, th bool) []ECMat {
	all := cached("ec/"+curve, func() []ECMat {
		n := ref.KSCoordSize(curve)
		find := func(shape string, fix func(s []byte), ok func(pub []byte) bool) ECMat {
			for i := 0; i < 100000; i++ {
				s := ref.KeyBytes(fmt.Sprintf("ec-%s-%s-%d", curve, shape, i), n)
				if curve == "P521" {
					s[0] &= 1
				}
				fix(s)
				pub, err := ref.KSECPublic(curve, s)
				if err != nil || !ok(pub) {
					continue
				}
				return ECMat{shape, s, pub}
			}
			panic("keycat: no " + shape + " key on " + curve)
		}
		nop := func([]byte) {}
		any := func([]byte) bool { return true }
		out := []ECMat{find("rnd", nop, any), find("lzscalar", func(s []byte) { s[0] = 0 }, any)}
		if curve == "X25519" {
			out = append(out, find("lzpub", nop, func(p []byte) bool { return p[0] == 0 }))
			return out
		}
		out = append(out,
			find("lzx", nop, func(p []byte) bool { return p[1] == 0 }),
			find("lzy", nop, func(p []byte) bool { return p[1+n] == 0 }),
			find("lz2scalar", func(s []byte) { s[0], s[1] = 0, 0 }, any))
		one := make([]byte, n)
		one[n-1] = 1
		pub, err := ref.KSECPublic(curve, one)
		if err != nil {
			panic(err)
		}
		out = append(out, ECMat{"one", one, pub})
		return out
	})
	if th {
		return all
	}
	if curve == "X25519" {
		return all[:3]
	}
	return all[:4]
}

func ecMats(m ECMat, bigint bool) []Mat {
	return []Mat{{Name: "private", B: m.Scalar, Secret: true, BigInt: bigint}, {Name: "public", B: m.Pub}}
}

// Undeclared enum probes: values below and above the declared range.
func enumDomain(maxDeclared int) []int { return append([]int{-1}, enumRange(0, maxDeclared+2)...) }

func declared(v, maxDeclared int) bool { return v >= 0 && v <= maxDeclared }
