package keycat

import (
	"fmt"

	"github.com/tink-crypto/tink-go/v2/jwt/jwtecdsa"
	"github.com/tink-crypto/tink-go/v2/jwt/jwthmac"
	"github.com/tink-crypto/tink-go/v2/jwt/jwtmldsa"
	"github.com/tink-crypto/tink-go/v2/jwt/jwtrsassapkcs1"
	"github.com/tink-crypto/tink-go/v2/jwt/jwtrsassapss"
	"github.com/tink-crypto/tink-go/v2/key"
	tinkpb "github.com/tink-crypto/tink-go/v2/proto/tink_go_proto"
	"github.com/tink-crypto/tink-go/v2/signature/rsassapkcs1"
	"github.com/tink-crypto/tink-go/v2/signature/rsassapss"
	"verif/ref"
)

// KID strategy (Unknown, Base64EncodedKeyIDAsKID, IgnoredKID, CustomKID): the first is the TINK prefix
// type with an ID requirement, the other two are RAW.
var varKID = map[int]ref.KSVariant{1: ref.KSTink, 2: ref.KSRaw, 3: ref.KSRaw}

const kidCustom = 3

// customKIDs are the custom "kid" values used for keys with the CustomKID strategy.
func customKIDs(strategy int, th bool) []*string {
	if strategy != kidCustom {
		return []*string{nil}
	}
	a, b, c, d := "custom-kid-1", "", "kid-ü-€", "a-rather-long-key-identifier-0123456789-0123456789-0123456789-0123456789"
	if th {
		return []*string{&a, &b, &c, &d}
	}
	return []*string{&a, &b}
}

func kidDesc(k *string) string {
	if k == nil {
		return "-"
	}
	return fmt.Sprintf("%q", *k)
}

func kidVal(k *string) (string, bool) {
	if k == nil {
		return "", false
	}
	return *k, true
}

func init() {
	// ---------------------------------------------------------------- JWT HMAC
	{
		f := &Family{Name: "JwtHmac", URL: URLPrefix + "JwtHmacKey", Label: tinkpb.KeyData_SYMMETRIC, Class: ClassJWTMAC, NoPrefix: true}
		f.Enum = func(th bool, sh *Shard, emit EmitFn) {
			for _, ks := range Sizes(th) {
				for _, s := range enumDomain(3) {
					for _, a := range enumDomain(3) {
						kv, dv := vOf(varKID, s)
						p, err := jwthmac.NewParameters(ks, jwthmac.KIDStrategy(s), jwthmac.Algorithm(a))
						emit(fmt.Sprintf("key=%d kid=%d alg=%d", ks, s, a), dv && declared(a, 3), kv, p, err)
					}
				}
			}
		}
		f.Keys = func(p key.Parameters, v ref.KSVariant, id uint32, th bool) ([]*KeyCase, error) {
			pp := p.(*jwthmac.Parameters)
			var out []*KeyCase
			for _, kid := range customKIDs(int(pp.KIDStrategy()), th) {
				for _, m := range symShapes("jwthmac", pp.KeySizeInBytes(), th) {
					kv, has := kidVal(kid)
					k, err := jwthmac.NewKey(jwthmac.KeyOpts{KeyBytes: sb(m.B), IDRequirement: idFor(v, id), CustomKID: kv, HasCustomKID: has, Parameters: pp})
					if err != nil {
						return nil, err
					}
					out = append(out, sym(&KeyCase{Fam: f, Desc: fmt.Sprintf("key=%d %v %v kid=%s", pp.KeySizeInBytes(), pp.KIDStrategy(), pp.Algorithm(), kidDesc(kid)), P: p, Variant: v, ID: idFor(v, id), Key: k}, m))
				}
			}
			return out, nil
		}
		f.Rep = func(i int) (key.Parameters, ref.KSVariant) {
			vs := []int{1, 2, 3}
			s := vs[i%3]
			p, err := jwthmac.NewParameters(32, jwthmac.KIDStrategy(s), jwthmac.HS256)
			must(err)
			return p, varKID[s]
		}
		register(f)
	}
	// ---------------------------------------------------------------- JWT ECDSA
	{
		f := &Family{Name: "JwtEcdsa", URL: URLPrefix + "JwtEcdsaPrivateKey", PubURL: URLPrefix + "JwtEcdsaPublicKey", Label: tinkpb.KeyData_ASYMMETRIC_PRIVATE, Class: ClassJWTSign, NoPrefix: true}
		f.Enum = func(th bool, sh *Shard, emit EmitFn) {
			for _, s := range enumDomain(3) {
				for _, a := range enumDomain(3) {
					kv, dv := vOf(varKID, s)
					p, err := jwtecdsa.NewParameters(jwtecdsa.KIDStrategy(s), jwtecdsa.Algorithm(a))
					emit(fmt.Sprintf("kid=%d alg=%d", s, a), dv && declared(a, 3), kv, p, err)
				}
			}
		}
		f.Keys = func(p key.Parameters, v ref.KSVariant, id uint32, th bool) ([]*KeyCase, error) {
			pp := p.(*jwtecdsa.Parameters)
			curve, ok := curveNames[int(pp.Algorithm())]
			if !ok {
				return nil, nil
			}
			var out []*KeyCase
			for _, kid := range customKIDs(int(pp.KIDStrategy()), th) {
				for _, m := range ecShapes(curve, th) {
					kv, has := kidVal(kid)
					pub, err := jwtecdsa.NewPublicKey(jwtecdsa.PublicKeyOpts{PublicPoint: append([]byte{}, m.Pub...), IDRequirement: idFor(v, id), CustomKID: kv, HasCustomKID: has, Parameters: pp})
					if err != nil {
						return nil, err
					}
					pub2, err := jwtecdsa.NewPublicKey(jwtecdsa.PublicKeyOpts{PublicPoint: append([]byte{}, m.Pub...), IDRequirement: idFor(v, id), CustomKID: kv, HasCustomKID: has, Parameters: pp})
					if err != nil {
						return nil, err
					}
					k, err := jwtecdsa.NewPrivateKeyFromPublicKey(sb(m.Scalar), pub2)
					if err != nil {
						return nil, err
					}
					out = append(out, &KeyCase{Fam: f, P: p, Variant: v, ID: idFor(v, id), Key: k, Pub: pub, Mat: ecMats(m, true),
						Desc: fmt.Sprintf("JwtEcdsa %v %v kid=%s id=%#x material=%s", pp.Algorithm(), pp.KIDStrategy(), kidDesc(kid), idFor(v, id), m.Shape)})
				}
			}
			return out, nil
		}
		f.Rep = func(i int) (key.Parameters, ref.KSVariant) {
			vs := []int{1, 2, 3}
			s := vs[i%3]
			p, err := jwtecdsa.NewParameters(jwtecdsa.KIDStrategy(s), jwtecdsa.ES256)
			must(err)
			return p, varKID[s]
		}
		register(f)
	}
	// ---------------------------------------------------------------- JWT ML-DSA
	{
		f := &Family{Name: "JwtMlDsa", URL: URLPrefix + "JwtMlDsaPrivateKey", PubURL: URLPrefix + "JwtMlDsaPublicKey", Label: tinkpb.KeyData_ASYMMETRIC_PRIVATE, Class: ClassJWTSign, NoPrefix: true}
		inst := map[int]int{1: 44, 2: 65, 3: 87}
		f.Enum = func(th bool, sh *Shard, emit EmitFn) {
			for _, s := range enumDomain(3) {
				for _, a := range enumDomain(3) {
					kv, dv := vOf(varKID, s)
					p, err := jwtmldsa.NewParameters(jwtmldsa.KIDStrategy(s), jwtmldsa.Algorithm(a))
					emit(fmt.Sprintf("kid=%d alg=%d", s, a), dv && declared(a, 3), kv, p, err)
				}
			}
		}
		f.Keys = func(p key.Parameters, v ref.KSVariant, id uint32, th bool) ([]*KeyCase, error) {
			pp := p.(*jwtmldsa.Parameters)
			n, ok := inst[int(pp.Algorithm())]
			if !ok {
				return nil, nil
			}
			var out []*KeyCase
			for _, kid := range customKIDs(int(pp.KIDStrategy()), th) {
				for _, m := range mldsaShapes(n, th) {
					kv, has := kidVal(kid)
					mk := func() (*jwtmldsa.PublicKey, error) {
						return jwtmldsa.NewPublicKey(jwtmldsa.PublicKeyOpts{KeyBytes: append([]byte{}, m.Pub...), IDRequirement: idFor(v, id), CustomKID: kv, HasCustomKID: has, Parameters: pp})
					}
					pub, err := mk()
					if err != nil {
						return nil, err
					}
					pub2, _ := mk()
					k, err := jwtmldsa.NewPrivateKeyFromPublicKey(sb(m.Seed), pub2)
					if err != nil {
						return nil, err
					}
					out = append(out, &KeyCase{Fam: f, P: p, Variant: v, ID: idFor(v, id), Key: k, Pub: pub,
						Mat:  []Mat{{Name: "seed", B: m.Seed, Secret: true}, {Name: "public", B: m.Pub}},
						Desc: fmt.Sprintf("JwtMlDsa %v %v kid=%s id=%#x material=%s", pp.Algorithm(), pp.KIDStrategy(), kidDesc(kid), idFor(v, id), m.Shape)})
				}
			}
			return out, nil
		}
		f.Rep = func(i int) (key.Parameters, ref.KSVariant) {
			vs := []int{1, 2, 3}
			s := vs[i%3]
			p, err := jwtmldsa.NewParameters(jwtmldsa.KIDStrategy(s), jwtmldsa.MLDSA44)
			must(err)
			return p, varKID[s]
		}
		register(f)
	}
	// ---------------------------------------------------------------- JWT RSA-SSA-PKCS1
	{
		f := &Family{Name: "JwtRsaSsaPkcs1", URL: URLPrefix + "JwtRsaSsaPkcs1PrivateKey", PubURL: URLPrefix + "JwtRsaSsaPkcs1PublicKey", Label: tinkpb.KeyData_ASYMMETRIC_PRIVATE, Class: ClassJWTSign, NoPrefix: true}
		f.Enum = func(th bool, sh *Shard, emit EmitFn) {
			exps := rsaExponents(th)
			if se, ok := RSAShortDExponent(2048); ok {
				exps = append(exps, se)
			}
			for _, b := range rsaBits(th) {
				for _, e := range exps {
					for _, a := range enumDomain(4) {
						for _, s := range enumDomain(3) {
							kv, dv := vOf(varKID, s)
							p, err := jwtrsassapkcs1.NewParameters(jwtrsassapkcs1.ParametersOpts{ModulusSizeInBits: b, PublicExponent: e, Algorithm: jwtrsassapkcs1.Algorithm(a), KidStrategy: jwtrsassapkcs1.KIDStrategy(s)})
							emit(fmt.Sprintf("bits=%d e=%d alg=%d kid=%d", b, e, a, s), dv && declared(a, 4) && a != 1, kv, p, err)
						}
					}
				}
			}
		}
		f.Keys = func(p key.Parameters, v ref.KSVariant, id uint32, th bool) ([]*KeyCase, error) {
			pp := p.(*jwtrsassapkcs1.Parameters)
			if !rsaKeyDomain(pp.ModulusSizeInBits(), pp.PublicExponent(), th) {
				return nil, nil
			}
			var out []*KeyCase
			for _, kid := range customKIDs(int(pp.KIDStrategy()), th) {
				for _, m := range rsaShapes(pp.ModulusSizeInBits(), pp.PublicExponent(), th) {
					kv, has := kidVal(kid)
					mk := func() (*jwtrsassapkcs1.PublicKey, error) {
						return jwtrsassapkcs1.NewPublicKey(jwtrsassapkcs1.PublicKeyOpts{Modulus: pad(m.K.N, m.Pad), IDRequirement: idFor(v, id), CustomKID: kv, HasCustomKID: has, Parameters: pp})
					}
					pub, err := mk()
					if err != nil {
						return nil, err
					}
					var k key.Key
					if !m.PubOnly {
						pub2, _ := mk()
						k, err = jwtrsassapkcs1.NewPrivateKey(jwtrsassapkcs1.PrivateKeyOpts{PublicKey: pub2, D: sb(pad(m.K.D, m.Pad)), P: sb(pad(m.K.P, m.Pad)), Q: sb(pad(m.K.Q, m.Pad))})
						if err != nil && m.Optional {
							continue
						}
						if err != nil {
							return nil, err
						}
					}
					out = append(out, &KeyCase{Fam: f, P: p, Variant: v, ID: idFor(v, id), Key: k, Pub: pub, Mat: rsaMats(m),
						Desc: fmt.Sprintf("JwtRsaSsaPkcs1 %d e=%d %v %v kid=%s id=%#x material=%s", pp.ModulusSizeInBits(), pp.PublicExponent(), pp.Algorithm(), pp.KIDStrategy(), kidDesc(kid), idFor(v, id), m.Shape)})
				}
			}
			return out, nil
		}
		f.Rep = func(i int) (key.Parameters, ref.KSVariant) {
			vs := []int{1, 2, 3}
			s := vs[i%3]
			p, err := jwtrsassapkcs1.NewParameters(jwtrsassapkcs1.ParametersOpts{ModulusSizeInBits: 2048, PublicExponent: 65537, Algorithm: jwtrsassapkcs1.RS256, KidStrategy: jwtrsassapkcs1.KIDStrategy(s)})
			must(err)
			return p, varKID[s]
		}
		register(f)
	}
	// ---------------------------------------------------------------- JWT RSA-SSA-PSS
	{
		f := &Family{Name: "JwtRsaSsaPss", URL: URLPrefix + "JwtRsaSsaPssPrivateKey", PubURL: URLPrefix + "JwtRsaSsaPssPublicKey", Label: tinkpb.KeyData_ASYMMETRIC_PRIVATE, Class: ClassJWTSign, NoPrefix: true}
		f.Enum = func(th bool, sh *Shard, emit EmitFn) {
			exps := rsaExponents(th)
			if se, ok := RSAShortDExponent(2048); ok {
				exps = append(exps, se)
			}
			for _, b := range rsaBits(th) {
				for _, e := range exps {
					for _, a := range enumDomain(4) {
						for _, s := range enumDomain(3) {
							kv, dv := vOf(varKID, s)
							p, err := jwtrsassapss.NewParameters(jwtrsassapss.ParametersOpts{ModulusSizeInBits: b, PublicExponent: e, Algorithm: jwtrsassapss.Algorithm(a), KidStrategy: jwtrsassapss.KIDStrategy(s)})
							emit(fmt.Sprintf("bits=%d e=%d alg=%d kid=%d", b, e, a, s), dv && declared(a, 4) && a != 1, kv, p, err)
						}
					}
				}
			}
		}
		f.Keys = func(p key.Parameters, v ref.KSVariant, id uint32, th bool) ([]*KeyCase, error) {
			pp := p.(*jwtrsassapss.Parameters)
			if !rsaKeyDomain(pp.ModulusSizeInBits(), pp.PublicExponent(), th) {
				return nil, nil
			}
			var out []*KeyCase
			for _, kid := range customKIDs(int(pp.KIDStrategy()), th) {
				for _, m := range rsaShapes(pp.ModulusSizeInBits(), pp.PublicExponent(), th) {
					kv, has := kidVal(kid)
					mk := func() (*jwtrsassapss.PublicKey, error) {
						return jwtrsassapss.NewPublicKey(jwtrsassapss.PublicKeyOpts{Modulus: pad(m.K.N, m.Pad), IDRequirement: idFor(v, id), CustomKID: kv, HasCustomKID: has, Parameters: pp})
					}
					pub, err := mk()
					if err != nil {
						return nil, err
					}
					var k key.Key
					if !m.PubOnly {
						pub2, _ := mk()
						k, err = jwtrsassapss.NewPrivateKey(jwtrsassapss.PrivateKeyOpts{PublicKey: pub2, D: sb(pad(m.K.D, m.Pad)), P: sb(pad(m.K.P, m.Pad)), Q: sb(pad(m.K.Q, m.Pad))})
						if err != nil && m.Optional {
							continue
						}
						if err != nil {
							return nil, err
						}
					}
					out = append(out, &KeyCase{Fam: f, P: p, Variant: v, ID: idFor(v, id), Key: k, Pub: pub, Mat: rsaMats(m),
						Desc: fmt.Sprintf("JwtRsaSsaPss %d e=%d %v %v kid=%s id=%#x material=%s", pp.ModulusSizeInBits(), pp.PublicExponent(), pp.Algorithm(), pp.KIDStrategy(), kidDesc(kid), idFor(v, id), m.Shape)})
				}
			}
			return out, nil
		}
		f.Rep = func(i int) (key.Parameters, ref.KSVariant) {
			vs := []int{1, 2, 3}
			s := vs[i%3]
			p, err := jwtrsassapss.NewParameters(jwtrsassapss.ParametersOpts{ModulusSizeInBits: 2048, PublicExponent: 65537, Algorithm: jwtrsassapss.PS256, KidStrategy: jwtrsassapss.KIDStrategy(s)})
			must(err)
			return p, varKID[s]
		}
		register(f)
	}
}

// RSAParams builds parameters of one of the four RSA families for an arbitrary modulus size (e = 65537;
// rep selects the variant / KID strategy as in Rep).
func RSAParams(f *Family, bits, rep int) (key.Parameters, ref.KSVariant, error) {
	switch f.Name {
	case "RsaSsaPkcs1":
		v := []int{1, 4, 2, 3}[rep%4]
		p, err := rsassapkcs1.NewParameters(bits, rsassapkcs1.SHA256, 65537, rsassapkcs1.Variant(v))
		return p, var5[v], err
	case "RsaSsaPss":
		v := []int{1, 4, 2, 3}[rep%4]
		p, err := rsassapss.NewParameters(rsassapss.ParametersValues{ModulusSizeBits: bits, SigHashType: rsassapss.SHA256, MGF1HashType: rsassapss.SHA256, PublicExponent: 65537, SaltLengthBytes: 32}, rsassapss.Variant(v))
		return p, var5[v], err
	case "JwtRsaSsaPkcs1":
		s := []int{1, 2, 3}[rep%3]
		p, err := jwtrsassapkcs1.NewParameters(jwtrsassapkcs1.ParametersOpts{ModulusSizeInBits: bits, PublicExponent: 65537, Algorithm: jwtrsassapkcs1.RS256, KidStrategy: jwtrsassapkcs1.KIDStrategy(s)})
		return p, varKID[s], err
	case "JwtRsaSsaPss":
		s := []int{1, 2, 3}[rep%3]
		p, err := jwtrsassapss.NewParameters(jwtrsassapss.ParametersOpts{ModulusSizeInBits: bits, PublicExponent: 65537, Algorithm: jwtrsassapss.PS256, KidStrategy: jwtrsassapss.KIDStrategy(s)})
		return p, varKID[s], err
	}
	return nil, ref.KSRaw, fmt.Errorf("keycat: %s is not an RSA family", f.Name)
}
