package keycat

import (
	"bytes"
	"context"
	"errors"
	"fmt"
	"reflect"

	"github.com/tink-crypto/tink-go/v2/aead"
	"github.com/tink-crypto/tink-go/v2/aead/aesgcm"
	"github.com/tink-crypto/tink-go/v2/aead/aesgcmsiv"
	"github.com/tink-crypto/tink-go/v2/aead/xchacha20poly1305"
	"github.com/tink-crypto/tink-go/v2/insecurecleartextkeyset"
	"github.com/tink-crypto/tink-go/v2/key"
	"github.com/tink-crypto/tink-go/v2/keyset"
	tinkpb "github.com/tink-crypto/tink-go/v2/proto/tink_go_proto"
	"github.com/tink-crypto/tink-go/v2/testkeyset"
	"github.com/tink-crypto/tink-go/v2/tink"
	"github.com/tink-crypto/tink-go/v2/verifbridge/vb"
	"verif/ref"
)

// KEK is a key-encryption AEAD with known raw key bytes (RAW variant: ciphertext = nonce || ct || tag).
type KEK struct {
	Name string
	Raw  []byte
	A    tink.AEAD
}

type ctxAEAD struct{ a tink.AEAD }

func (c ctxAEAD) EncryptWithContext(_ context.Context, pt, ad []byte) ([]byte, error) {
	return c.a.Encrypt(pt, ad)
}
func (c ctxAEAD) DecryptWithContext(_ context.Context, ct, ad []byte) ([]byte, error) {
	return c.a.Decrypt(ct, ad)
}

func kekFrom(name string, raw []byte, k key.Key) KEK {
	m := keyset.NewManager()
	id, err := m.AddKey(k)
	must(err)
	must(m.SetPrimary(id))
	h, err := m.Handle()
	must(err)
	a, err := aead.New(h)
	must(err)
	return KEK{name, raw, a}
}

// KEKs returns the key-encryption keys: index 0..2 = AES256-GCM, AES256-GCM-SIV, XChaCha20-Poly1305; alt
// selects a second, different key of each type (the "wrong KEK").
func KEKs(alt bool) []KEK {
	label := "kek"
	if alt {
		label = "kek-alt"
	}
	return cached("keks/"+label, func() []KEK {
		r1, r2, r3 := ref.KeyBytes(label+"/gcm", 32), ref.KeyBytes(label+"/gcmsiv", 32), ref.KeyBytes(label+"/xchacha", 32)
		p1, err := aesgcm.NewParameters(aesgcm.ParametersOpts{KeySizeInBytes: 32, IVSizeInBytes: 12, TagSizeInBytes: 16, Variant: aesgcm.VariantNoPrefix})
		must(err)
		k1, err := aesgcm.NewKey(sb(r1), 0, p1)
		must(err)
		p2, err := aesgcmsiv.NewParameters(32, aesgcmsiv.VariantNoPrefix)
		must(err)
		k2, err := aesgcmsiv.NewKey(sb(r2), 0, p2)
		must(err)
		p3, err := xchacha20poly1305.NewParameters(xchacha20poly1305.VariantNoPrefix)
		must(err)
		k3, err := xchacha20poly1305.NewKey(sb(r3), 0, p3)
		must(err)
		return []KEK{kekFrom("AES256-GCM", r1, k1), kekFrom("AES256-GCM-SIV", r2, k2), kekFrom("XChaCha20-Poly1305", r3, k3)}
	})
}

// Blob is what a writer produced.
type Blob struct {
	Bytes []byte                  // binary / JSON writers
	Mem   *keyset.MemReaderWriter // MemReaderWriter
}

// flaky is the underlying io.Writer of the binary / JSON keyset writers: its FIRST use fails (the disk was full),
// then it works. The keyset writer object is therefore a USED one whose previous write ended in an error: what is
// read back after the next write must be exactly what that write stored.
type flaky struct {
	fail bool
	buf  bytes.Buffer
}

func (f *flaky) Write(p []byte) (int, error) {
	if f.fail {
		return 0, errFlaky
	}
	return f.buf.Write(p)
}

var errFlaky = errors.New("keycat: injected write error")

// DecoySecret is the key material of the large decoy keyset that every binary / JSON writer object has written
// before the judged write: it must not show up in any later output (leak scans include it).
var DecoySecret = ref.KeyBytes("keycat-decoy-secret", 16384)

func bigDecoy() *tinkpb.Keyset {
	return &tinkpb.Keyset{PrimaryKeyId: 0x7E58, Key: []*tinkpb.Keyset_Key{{KeyId: 0x7E58, Status: tinkpb.KeyStatusType_ENABLED, OutputPrefixType: tinkpb.OutputPrefixType_TINK,
		KeyData: &tinkpb.KeyData{TypeUrl: "type.googleapis.com/verif.keycat.BigDecoy", Value: bytes.Clone(DecoySecret), KeyMaterialType: tinkpb.KeyData_SYMMETRIC}}}}
}

func decoys() (*tinkpb.Keyset, *tinkpb.EncryptedKeyset) {
	ks := &tinkpb.Keyset{PrimaryKeyId: 0x7E57, Key: []*tinkpb.Keyset_Key{{KeyId: 0x7E57, Status: tinkpb.KeyStatusType_ENABLED, OutputPrefixType: tinkpb.OutputPrefixType_TINK,
		KeyData: &tinkpb.KeyData{TypeUrl: "type.googleapis.com/verif.keycat.Decoy", Value: []byte{1, 2, 3}, KeyMaterialType: tinkpb.KeyData_SYMMETRIC}}}}
	enc := &tinkpb.EncryptedKeyset{EncryptedKeyset: []byte("decoy"), KeysetInfo: &tinkpb.KeysetInfo{PrimaryKeyId: 0x7E57,
		KeyInfo: []*tinkpb.KeysetInfo_KeyInfo{{TypeUrl: "type.googleapis.com/verif.keycat.Decoy", KeyId: 0x7E57, Status: tinkpb.KeyStatusType_ENABLED, OutputPrefixType: tinkpb.OutputPrefixType_TINK}}}}
	return ks, enc
}

// writer returns the keyset writer; arm (binary / JSON only) ends the phase in which the underlying writer fails.
func (b *Blob) writer(format string, encrypted bool) (w keyset.Writer, buf *bytes.Buffer, arm func()) {
	if format == "binary" || format == "json" {
		f := &flaky{fail: true}
		w = keyset.NewBinaryWriter(f)
		if format == "json" {
			w = keyset.NewJSONWriter(f)
		}
		dk, de := decoys()
		if encrypted {
			w.WriteEncrypted(de)
		} else {
			w.Write(dk)
		}
		return w, &f.buf, func() { f.fail = false }
	}
	// The MemReaderWriter has been used before (another keyset was stored in the same place, in clear and encrypted
	// form): what is read back after the next write must be what THAT write stored.
	b.Mem = &keyset.MemReaderWriter{}
	decoy := &tinkpb.Keyset{PrimaryKeyId: 0x7E57, Key: []*tinkpb.Keyset_Key{{KeyId: 0x7E57, Status: tinkpb.KeyStatusType_ENABLED, OutputPrefixType: tinkpb.OutputPrefixType_TINK,
		KeyData: &tinkpb.KeyData{TypeUrl: "type.googleapis.com/verif.keycat.Decoy", Value: []byte{1, 2, 3}, KeyMaterialType: tinkpb.KeyData_SYMMETRIC}}}}
	if !encrypted {
		b.Mem.Write(decoy)
		return b.Mem, nil, nil
	}
	b.Mem.WriteEncrypted(&tinkpb.EncryptedKeyset{EncryptedKeyset: []byte("decoy"), KeysetInfo: &tinkpb.KeysetInfo{PrimaryKeyId: 0x7E57,
		KeyInfo: []*tinkpb.KeysetInfo_KeyInfo{{TypeUrl: "type.googleapis.com/verif.keycat.Decoy", KeyId: 0x7E57, Status: tinkpb.KeyStatusType_ENABLED, OutputPrefixType: tinkpb.OutputPrefixType_TINK}}}})
	return b.Mem, nil, nil
}

func (b *Blob) reader(format string) keyset.Reader {
	switch format {
	case "binary":
		return keyset.NewBinaryReader(bytes.NewReader(b.Bytes))
	case "json":
		return keyset.NewJSONReader(bytes.NewReader(b.Bytes))
	}
	return b.Mem
}

// IO is one writer/reader pair.
type IO struct {
	Name   string
	Kind   string // cleartext | encrypted | nosecrets
	API    string
	Format string // binary | json | mem
	KEK    int    // index into KEKs (encrypted only)
	AD     []byte
	HasAD  bool // the API takes associated data
}

var Formats = []string{"binary", "json", "mem"}

// ADs is the associated-data domain: nil, empty, five bytes.
var ADs = [][]byte{nil, {}, []byte("ad-5b")}

// IOs returns all writer/reader pairs.
func IOs() []IO {
	var out []IO
	for _, api := range []string{"insecurecleartextkeyset", "testkeyset"} {
		for _, f := range Formats {
			out = append(out, IO{Name: api + "/" + f, Kind: "cleartext", API: api, Format: f})
		}
	}
	for _, f := range Formats {
		out = append(out, IO{Name: "WriteWithNoSecrets+ReadWithNoSecrets/" + f, Kind: "nosecrets", API: "nosecrets", Format: f})
	}
	for k := 0; k < 3; k++ {
		kn := KEKs(false)[k].Name
		for _, f := range Formats {
			out = append(out, IO{Name: fmt.Sprintf("Write+Read/%s/%s", kn, f), Kind: "encrypted", API: "Write", Format: f, KEK: k})
			for ai, ad := range ADs {
				out = append(out, IO{Name: fmt.Sprintf("WriteWithAssociatedData+ReadWithAssociatedData/%s/ad#%d/%s", kn, ai, f), Kind: "encrypted", API: "WithAssociatedData", Format: f, KEK: k, AD: ad, HasAD: true})
				out = append(out, IO{Name: fmt.Sprintf("WriteWithContext+ReadWithContext/%s/ad#%d/%s", kn, ai, f), Kind: "encrypted", API: "WithContext", Format: f, KEK: k, AD: ad, HasAD: true})
			}
		}
	}
	return out
}

// Write runs the writer half.
func (io IO) Write(h *keyset.Handle) (*Blob, error) {
	b := &Blob{}
	w, buf, arm := b.writer(io.Format, io.Kind == "encrypted")
	skip := 0
	if arm != nil {
		// HISTORY of the writer object: while its disk was full, the SAME handle was written through it in the CLEAR
		// (the attempt failed, nothing reached the disk). Whatever the next - possibly encrypted - write stores must
		// be that write's output only.
		if h != nil {
			_ = insecurecleartextkeyset.Write(h, w)
		}
		arm()
		// ... and then, for every second handle (chosen by its content, so that a replay sees the same history), a
		// LARGER keyset (a cleartext decoy with a recognisable 16 KiB secret, DecoySecret) was written through it
		// successfully: the judged write follows in the same stream and its output is what comes after. For the
		// other handles the judged write comes straight after the FAILED one.
		variant := 0
		if h != nil {
			for _, c := range []byte(h.String()) {
				variant += int(c)
			}
		}
		if variant%2 == 1 {
			if err := w.Write(bigDecoy()); err == nil {
				skip = buf.Len()
			}
		}
	}
	var err error
	switch io.API {
	case "insecurecleartextkeyset":
		err = insecurecleartextkeyset.Write(h, w)
	case "testkeyset":
		err = testkeyset.Write(h, w)
	case "nosecrets":
		err = h.WriteWithNoSecrets(w)
	case "Write":
		err = h.Write(w, KEKs(false)[io.KEK].A)
	case "WithAssociatedData":
		err = h.WriteWithAssociatedData(w, KEKs(false)[io.KEK].A, io.AD)
	case "WithContext":
		err = h.WriteWithContext(context.Background(), w, ctxAEAD{KEKs(false)[io.KEK].A}, io.AD)
	default:
		panic("keycat: unknown API " + io.API)
	}
	if buf != nil {
		b.Bytes = buf.Bytes()[skip:]
	}
	return b, err
}

// ReadWith runs the reader half with an explicit KEK and associated data (encrypted kinds).
func (io IO) ReadWith(b *Blob, kek tink.AEAD, ad []byte) (*keyset.Handle, error) {
	r := b.reader(io.Format)
	switch io.API {
	case "insecurecleartextkeyset":
		return insecurecleartextkeyset.Read(r)
	case "testkeyset":
		return testkeyset.Read(r)
	case "nosecrets":
		return keyset.ReadWithNoSecrets(r)
	case "Write":
		return keyset.Read(r, kek)
	case "WithAssociatedData":
		return keyset.ReadWithAssociatedData(r, kek, ad)
	case "WithContext":
		return keyset.ReadWithContext(context.Background(), r, ctxAEAD{kek}, ad)
	}
	panic("keycat: unknown API " + io.API)
}

// Read runs the matching reader half.
func (io IO) Read(b *Blob) (*keyset.Handle, error) {
	var kek tink.AEAD
	if io.Kind == "encrypted" {
		kek = KEKs(false)[io.KEK].A
	}
	return io.ReadWith(b, kek, io.AD)
}

// Item is one key of a keyset under construction.
type Item struct {
	KC      *KeyCase
	Public  bool // use the public half
	Status  tinkpb.KeyStatusType
	Primary bool
	ID      uint32 // keyset key ID (equals the ID requirement when the key has one)
}

func (it Item) Key() key.Key {
	if it.Public {
		return it.KC.Pub
	}
	return it.KC.Key
}

func (it Item) URL() string {
	if it.Public {
		return it.KC.Fam.PubURL
	}
	return it.KC.Fam.URL
}

func (it Item) Class() Class {
	if it.Public {
		return it.KC.Fam.Class.PublicOf()
	}
	return it.KC.Fam.Class
}

// Secret reports whether the item carries secret key material (ground truth from the catalogue).
func (it Item) Secret() bool {
	if it.Public {
		return false
	}
	return it.KC.Fam.Label == tinkpb.KeyData_SYMMETRIC || it.KC.Fam.Label == tinkpb.KeyData_ASYMMETRIC_PRIVATE
}

var statusOf = map[tinkpb.KeyStatusType]keyset.KeyStatus{tinkpb.KeyStatusType_ENABLED: keyset.Enabled, tinkpb.KeyStatusType_DISABLED: keyset.Disabled, tinkpb.KeyStatusType_DESTROYED: keyset.Destroyed}

// BuildHandle builds a handle directly from key objects (keyset.Manager with fixed IDs; no
// serialisation involved), in the given order.
func BuildHandle(items []Item) (*keyset.Handle, error) {
	m := keyset.NewManager()
	for i, it := range items {
		// keys that carry their own id requirement and are ENABLED go through the PUBLIC path Manager.AddKey
		// (+ SetPrimary): the keyset id must then come from the key's id requirement, also for id 0
		if k := it.Key(); k != nil && !isNilKey(k) && hasIDReq(k) && it.Status == tinkpb.KeyStatusType_ENABLED {
			id, err := m.AddKey(it.Key())
			if err != nil {
				return nil, fmt.Errorf("item %d: AddKey: %v", i, err)
			}
			if it.Primary {
				if err := m.SetPrimary(id); err != nil {
					return nil, fmt.Errorf("item %d: SetPrimary: %v", i, err)
				}
			}
			continue
		}
		opts := []keyset.KeyOpts{keyset.WithFixedID(it.ID), keyset.WithStatus(statusOf[it.Status])}
		if it.Primary {
			opts = append(opts, keyset.AsPrimary())
		}
		if _, err := m.AddKeyWithOpts(it.Key(), vb.Tok(), opts...); err != nil {
			return nil, fmt.Errorf("item %d: %v", i, err)
		}
	}
	return m.Handle()
}

func hasIDReq(k key.Key) bool { _, has := k.IDRequirement(); return has }

// isNilKey reports a typed nil pointer inside the key.Key interface (public-only catalogue entries).
func isNilKey(k key.Key) bool {
	v := reflect.ValueOf(k)
	return v.Kind() == reflect.Ptr && v.IsNil()
}

// Unit is one type URL of the catalogue: a family, or the public half of an asymmetric family.
type Unit struct {
	Fam    *Family
	Public bool
}

func (u Unit) Name() string {
	if u.Public {
		return u.Fam.ShortPubURL()
	}
	return u.Fam.ShortURL()
}

func (u Unit) URL() string {
	if u.Public {
		return u.Fam.PubURL
	}
	return u.Fam.URL
}

// Units lists every type URL of the catalogue in a fixed order.
func Units() []Unit {
	var out []Unit
	for _, f := range Families() {
		out = append(out, Unit{f, false})
		if f.PubURL != "" {
			out = append(out, Unit{f, true})
		}
	}
	return out
}

// RepItem builds the representative keyset item of a unit (variant index rep, key ID id). Cached.
func RepItem(u Unit, rep int, id uint32) (Item, error) {
	type res struct {
		kc  *KeyCase
		err error
	}
	r := cached(fmt.Sprintf("rep/%s/%d/%d", u.Fam.Name, rep%u.Fam.NumReps(), id), func() res {
		kc, err := u.Fam.RepKey(rep%u.Fam.NumReps(), id)
		return res{kc, err}
	})
	if r.err != nil {
		return Item{}, r.err
	}
	kid := id
	if ref.KSHasIDRequirement(r.kc.Variant) {
		kid = r.kc.ID
	}
	return Item{KC: r.kc, Public: u.Public, Status: tinkpb.KeyStatusType_ENABLED, ID: kid}, nil
}
