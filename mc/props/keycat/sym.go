package keycat

import (
	"fmt"

	"github.com/tink-crypto/tink-go/v2/aead/aesctrhmac"
	"github.com/tink-crypto/tink-go/v2/aead/aesgcm"
	"github.com/tink-crypto/tink-go/v2/aead/aesgcmsiv"
	"github.com/tink-crypto/tink-go/v2/aead/chacha20poly1305"
	"github.com/tink-crypto/tink-go/v2/aead/xaesgcm"
	"github.com/tink-crypto/tink-go/v2/aead/xchacha20poly1305"
	"github.com/tink-crypto/tink-go/v2/daead/aessiv"
	"github.com/tink-crypto/tink-go/v2/key"
	"github.com/tink-crypto/tink-go/v2/mac/aescmac"
	"github.com/tink-crypto/tink-go/v2/mac/hmac"
	"github.com/tink-crypto/tink-go/v2/prf/aescmacprf"
	"github.com/tink-crypto/tink-go/v2/prf/hkdfprf"
	"github.com/tink-crypto/tink-go/v2/prf/hmacprf"
	tinkpb "github.com/tink-crypto/tink-go/v2/proto/tink_go_proto"
	sactrhmac "github.com/tink-crypto/tink-go/v2/streamingaead/aesctrhmac"
	"github.com/tink-crypto/tink-go/v2/streamingaead/aesgcmhkdf"
	"verif/ref"
)

// Independent variant tables: integer value of the package's Variant constant -> prefix semantics.
// (Unknown, Tink, Crunchy, Legacy, NoPrefix) / (Unknown, Tink, Crunchy, NoPrefix) / (Unknown, Tink, NoPrefix)
var (
	var5 = map[int]ref.KSVariant{1: ref.KSTink, 2: ref.KSCrunchy, 3: ref.KSLegacy, 4: ref.KSRaw}
	var4 = map[int]ref.KSVariant{1: ref.KSTink, 2: ref.KSCrunchy, 3: ref.KSRaw}
	var3 = map[int]ref.KSVariant{1: ref.KSTink, 2: ref.KSRaw}
)

func vOf(tab map[int]ref.KSVariant, v int) (ref.KSVariant, bool) {
	kv, ok := tab[v]
	if !ok {
		return ref.KSRaw, v == 0
	}
	return kv, true
}

func idFor(v ref.KSVariant, id uint32) uint32 {
	if !ref.KSHasIDRequirement(v) {
		return 0
	}
	return id
}

func sym(kc *KeyCase, m Mat) *KeyCase {
	kc.Mat = []Mat{m}
	kc.Desc = fmt.Sprintf("%s %s id=%#x material=%s", kc.Fam.Name, kc.Desc, kc.ID, m.Name)
	return kc
}

func init() {
	// ---------------------------------------------------------------- HMAC
	{
		f := &Family{Name: "Hmac", URL: URLPrefix + "HmacKey", Label: tinkpb.KeyData_SYMMETRIC, Class: ClassMAC}
		f.Enum = func(th bool, sh *Shard, emit EmitFn) {
			tags := Sizes(th)
			for _, ks := range Sizes(th) {
				for _, ts := range tags {
					for _, h := range enumDomain(5) {
						for _, v := range enumDomain(4) {
							kv, dv := vOf(var5, v)
							p, err := hmac.NewParameters(hmac.ParametersOpts{KeySizeInBytes: ks, TagSizeInBytes: ts, HashType: hmac.HashType(h), Variant: hmac.Variant(v)})
							emit(fmt.Sprintf("key=%d tag=%d hash=%d variant=%d", ks, ts, h, v), dv && declared(h, 5), kv, p, err)
						}
					}
				}
			}
		}
		f.Keys = func(p key.Parameters, v ref.KSVariant, id uint32, th bool) ([]*KeyCase, error) {
			pp := p.(*hmac.Parameters)
			var out []*KeyCase
			for _, m := range symShapes("hmac", pp.KeySizeInBytes(), th) {
				k, err := hmac.NewKey(sb(m.B), pp, idFor(v, id))
				if err != nil {
					return nil, err
				}
				out = append(out, sym(&KeyCase{Fam: f, Desc: fmt.Sprint(pp), P: p, Variant: v, ID: idFor(v, id), Key: k}, m))
			}
			return out, nil
		}
		f.Rep = func(i int) (key.Parameters, ref.KSVariant) {
			vs := []int{1, 4, 2, 3}
			v := vs[i%4]
			p, err := hmac.NewParameters(hmac.ParametersOpts{KeySizeInBytes: 32, TagSizeInBytes: 16, HashType: hmac.SHA256, Variant: hmac.Variant(v)})
			must(err)
			return p, var5[v]
		}
		register(f)
	}
	// ---------------------------------------------------------------- AES-CMAC
	{
		f := &Family{Name: "AesCmac", URL: URLPrefix + "AesCmacKey", Label: tinkpb.KeyData_SYMMETRIC, Class: ClassMAC}
		f.Enum = func(th bool, sh *Shard, emit EmitFn) {
			for _, ks := range Sizes(th) {
				for _, ts := range Sizes(th) {
					for _, v := range enumDomain(4) {
						kv, dv := vOf(var5, v)
						p, err := aescmac.NewParameters(aescmac.ParametersOpts{KeySizeInBytes: ks, TagSizeInBytes: ts, Variant: aescmac.Variant(v)})
						emit(fmt.Sprintf("key=%d tag=%d variant=%d", ks, ts, v), dv, kv, p, err)
					}
				}
			}
		}
		f.Keys = func(p key.Parameters, v ref.KSVariant, id uint32, th bool) ([]*KeyCase, error) {
			pp := p.(*aescmac.Parameters)
			var out []*KeyCase
			for _, m := range symShapes("aescmac", pp.KeySizeInBytes(), th) {
				k, err := aescmac.NewKey(sb(m.B), pp, idFor(v, id))
				if err != nil {
					return nil, err
				}
				out = append(out, sym(&KeyCase{Fam: f, Desc: fmt.Sprint(pp), P: p, Variant: v, ID: idFor(v, id), Key: k}, m))
			}
			return out, nil
		}
		f.Rep = func(i int) (key.Parameters, ref.KSVariant) {
			vs := []int{1, 4, 2, 3}
			v := vs[i%4]
			p, err := aescmac.NewParameters(aescmac.ParametersOpts{KeySizeInBytes: 32, TagSizeInBytes: 16, Variant: aescmac.Variant(v)})
			must(err)
			return p, var5[v]
		}
		register(f)
	}
	// ---------------------------------------------------------------- PRFs (no prefix, no ID requirement)
	{
		f := &Family{Name: "AesCmacPrf", URL: URLPrefix + "AesCmacPrfKey", Label: tinkpb.KeyData_SYMMETRIC, Class: ClassPRF, NoPrefix: true}
		f.Enum = func(th bool, sh *Shard, emit EmitFn) {
			for _, ks := range Sizes(th) {
				p, err := aescmacprf.NewParameters(ks)
				emit(fmt.Sprintf("key=%d", ks), true, ref.KSRaw, &p, err)
			}
		}
		f.Keys = func(p key.Parameters, v ref.KSVariant, id uint32, th bool) ([]*KeyCase, error) {
			pp := p.(*aescmacprf.Parameters)
			var out []*KeyCase
			for _, m := range symShapes("aescmacprf", pp.KeySizeInBytes(), th) {
				k, err := aescmacprf.NewKey(sb(m.B))
				if err != nil {
					return nil, err
				}
				out = append(out, sym(&KeyCase{Fam: f, Desc: fmt.Sprintf("key=%d", pp.KeySizeInBytes()), P: p, Variant: ref.KSRaw, Key: k}, m))
			}
			return out, nil
		}
		f.Rep = func(i int) (key.Parameters, ref.KSVariant) {
			p, err := aescmacprf.NewParameters(32)
			must(err)
			return &p, ref.KSRaw
		}
		register(f)
	}
	{
		f := &Family{Name: "HmacPrf", URL: URLPrefix + "HmacPrfKey", Label: tinkpb.KeyData_SYMMETRIC, Class: ClassPRF, NoPrefix: true}
		f.Enum = func(th bool, sh *Shard, emit EmitFn) {
			for _, ks := range Sizes(th) {
				for _, h := range enumDomain(5) {
					p, err := hmacprf.NewParameters(ks, hmacprf.HashType(h))
					emit(fmt.Sprintf("key=%d hash=%d", ks, h), declared(h, 5), ref.KSRaw, p, err)
				}
			}
		}
		f.Keys = func(p key.Parameters, v ref.KSVariant, id uint32, th bool) ([]*KeyCase, error) {
			pp := p.(*hmacprf.Parameters)
			var out []*KeyCase
			for _, m := range symShapes("hmacprf", pp.KeySizeInBytes(), th) {
				k, err := hmacprf.NewKey(sb(m.B), pp)
				if err != nil {
					return nil, err
				}
				out = append(out, sym(&KeyCase{Fam: f, Desc: fmt.Sprintf("key=%d hash=%v", pp.KeySizeInBytes(), pp.HashType()), P: p, Variant: ref.KSRaw, Key: k}, m))
			}
			return out, nil
		}
		f.Rep = func(i int) (key.Parameters, ref.KSVariant) {
			p, err := hmacprf.NewParameters(32, hmacprf.SHA256)
			must(err)
			return p, ref.KSRaw
		}
		register(f)
	}
	{
		f := &Family{Name: "HkdfPrf", URL: URLPrefix + "HkdfPrfKey", Label: tinkpb.KeyData_SYMMETRIC, Class: ClassPRF, NoPrefix: true}
		f.Enum = func(th bool, sh *Shard, emit EmitFn) {
			salts := [][]byte{nil, {}, {0}, ref.Pattern(2, 5), ref.Pattern(3, 32), ref.Pattern(3, 70)}
			if th {
				salts = salts[:2]
				for n := 1; n <= 70; n++ {
					salts = append(salts, ref.Pattern(3, n))
				}
				salts = append(salts, make([]byte, 16))
			}
			for _, ks := range Sizes(th) {
				for _, h := range enumDomain(5) {
					for si, s := range salts {
						p, err := hkdfprf.NewParameters(ks, hkdfprf.HashType(h), s)
						emit(fmt.Sprintf("key=%d hash=%d salt#%d(len %d nil=%v)", ks, h, si, len(s), s == nil), declared(h, 5), ref.KSRaw, p, err)
					}
				}
			}
		}
		f.Keys = func(p key.Parameters, v ref.KSVariant, id uint32, th bool) ([]*KeyCase, error) {
			pp := p.(*hkdfprf.Parameters)
			var out []*KeyCase
			for _, m := range symShapes("hkdfprf", pp.KeySizeInBytes(), th) {
				k, err := hkdfprf.NewKey(sb(m.B), pp)
				if err != nil {
					return nil, err
				}
				out = append(out, sym(&KeyCase{Fam: f, Desc: fmt.Sprintf("key=%d hash=%v salt=%x", pp.KeySizeInBytes(), pp.HashType(), pp.Salt()), P: p, Variant: ref.KSRaw, Key: k}, m))
			}
			return out, nil
		}
		f.Rep = func(i int) (key.Parameters, ref.KSVariant) {
			p, err := hkdfprf.NewParameters(32, hkdfprf.SHA256, []byte("salt!"))
			must(err)
			return p, ref.KSRaw
		}
		register(f)
	}
	// ---------------------------------------------------------------- AES-GCM
	{
		f := &Family{Name: "AesGcm", URL: URLPrefix + "AesGcmKey", Label: tinkpb.KeyData_SYMMETRIC, Class: ClassAEAD}
		f.Enum = func(th bool, sh *Shard, emit EmitFn) {
			for _, ks := range Sizes(th) {
				for _, iv := range Sizes(th) {
					for _, ts := range SmallSizes(th) {
						for _, v := range enumDomain(3) {
							kv, dv := vOf(var4, v)
							p, err := aesgcm.NewParameters(aesgcm.ParametersOpts{KeySizeInBytes: ks, IVSizeInBytes: iv, TagSizeInBytes: ts, Variant: aesgcm.Variant(v)})
							emit(fmt.Sprintf("key=%d iv=%d tag=%d variant=%d", ks, iv, ts, v), dv, kv, p, err)
						}
					}
				}
			}
		}
		f.Keys = func(p key.Parameters, v ref.KSVariant, id uint32, th bool) ([]*KeyCase, error) {
			pp := p.(*aesgcm.Parameters)
			var out []*KeyCase
			for _, m := range symShapes("aesgcm", pp.KeySizeInBytes(), th) {
				k, err := aesgcm.NewKey(sb(m.B), idFor(v, id), pp)
				if err != nil {
					return nil, err
				}
				out = append(out, sym(&KeyCase{Fam: f, Desc: fmt.Sprintf("key=%d iv=%d tag=%d %v", pp.KeySizeInBytes(), pp.IVSizeInBytes(), pp.TagSizeInBytes(), v), P: p, Variant: v, ID: idFor(v, id), Key: k}, m))
			}
			return out, nil
		}
		f.Rep = func(i int) (key.Parameters, ref.KSVariant) {
			vs := []int{1, 3, 2}
			v := vs[i%3]
			p, err := aesgcm.NewParameters(aesgcm.ParametersOpts{KeySizeInBytes: 32, IVSizeInBytes: 12, TagSizeInBytes: 16, Variant: aesgcm.Variant(v)})
			must(err)
			return p, var4[v]
		}
		register(f)
	}
	// ---------------------------------------------------------------- AES-GCM-SIV / AES-SIV (size, variant)
	{
		f := &Family{Name: "AesGcmSiv", URL: URLPrefix + "AesGcmSivKey", Label: tinkpb.KeyData_SYMMETRIC, Class: ClassAEAD}
		f.Enum = func(th bool, sh *Shard, emit EmitFn) {
			for _, ks := range Sizes(th) {
				for _, v := range enumDomain(3) {
					kv, dv := vOf(var4, v)
					p, err := aesgcmsiv.NewParameters(ks, aesgcmsiv.Variant(v))
					emit(fmt.Sprintf("key=%d variant=%d", ks, v), dv, kv, p, err)
				}
			}
		}
		f.Keys = func(p key.Parameters, v ref.KSVariant, id uint32, th bool) ([]*KeyCase, error) {
			pp := p.(*aesgcmsiv.Parameters)
			var out []*KeyCase
			for _, m := range symShapes("aesgcmsiv", pp.KeySizeInBytes(), th) {
				k, err := aesgcmsiv.NewKey(sb(m.B), idFor(v, id), pp)
				if err != nil {
					return nil, err
				}
				out = append(out, sym(&KeyCase{Fam: f, Desc: fmt.Sprintf("key=%d %v", pp.KeySizeInBytes(), v), P: p, Variant: v, ID: idFor(v, id), Key: k}, m))
			}
			return out, nil
		}
		f.Rep = func(i int) (key.Parameters, ref.KSVariant) {
			vs := []int{1, 3, 2}
			v := vs[i%3]
			p, err := aesgcmsiv.NewParameters(32, aesgcmsiv.Variant(v))
			must(err)
			return p, var4[v]
		}
		register(f)
	}
	{
		f := &Family{Name: "AesSiv", URL: URLPrefix + "AesSivKey", Label: tinkpb.KeyData_SYMMETRIC, Class: ClassDAEAD}
		f.Enum = func(th bool, sh *Shard, emit EmitFn) {
			for _, ks := range Sizes(th) {
				for _, v := range enumDomain(3) {
					kv, dv := vOf(var4, v)
					p, err := aessiv.NewParameters(ks, aessiv.Variant(v))
					emit(fmt.Sprintf("key=%d variant=%d", ks, v), dv, kv, p, err)
				}
			}
		}
		f.Keys = func(p key.Parameters, v ref.KSVariant, id uint32, th bool) ([]*KeyCase, error) {
			pp := p.(*aessiv.Parameters)
			var out []*KeyCase
			for _, m := range symShapes("aessiv", pp.KeySizeInBytes(), th) {
				k, err := aessiv.NewKey(sb(m.B), idFor(v, id), pp)
				if err != nil {
					return nil, err
				}
				out = append(out, sym(&KeyCase{Fam: f, Desc: fmt.Sprintf("key=%d %v", pp.KeySizeInBytes(), v), P: p, Variant: v, ID: idFor(v, id), Key: k}, m))
			}
			return out, nil
		}
		f.Rep = func(i int) (key.Parameters, ref.KSVariant) {
			vs := []int{1, 3, 2}
			v := vs[i%3]
			p, err := aessiv.NewParameters(64, aessiv.Variant(v))
			must(err)
			return p, var4[v]
		}
		register(f)
	}
	// ---------------------------------------------------------------- ChaCha20-Poly1305 / XChaCha20-Poly1305
	{
		f := &Family{Name: "ChaCha20Poly1305", URL: URLPrefix + "ChaCha20Poly1305Key", Label: tinkpb.KeyData_SYMMETRIC, Class: ClassAEAD}
		f.Enum = func(th bool, sh *Shard, emit EmitFn) {
			for _, v := range enumDomain(3) {
				kv, dv := vOf(var4, v)
				p, err := chacha20poly1305.NewParameters(chacha20poly1305.Variant(v))
				emit(fmt.Sprintf("variant=%d", v), dv, kv, p, err)
			}
		}
		f.Keys = func(p key.Parameters, v ref.KSVariant, id uint32, th bool) ([]*KeyCase, error) {
			pp := p.(*chacha20poly1305.Parameters)
			var out []*KeyCase
			for _, m := range symShapes("chacha", 32, th) {
				k, err := chacha20poly1305.NewKey(sb(m.B), idFor(v, id), pp)
				if err != nil {
					return nil, err
				}
				out = append(out, sym(&KeyCase{Fam: f, Desc: v.String(), P: p, Variant: v, ID: idFor(v, id), Key: k}, m))
			}
			return out, nil
		}
		f.Rep = func(i int) (key.Parameters, ref.KSVariant) {
			vs := []int{1, 3, 2}
			v := vs[i%3]
			p, err := chacha20poly1305.NewParameters(chacha20poly1305.Variant(v))
			must(err)
			return p, var4[v]
		}
		register(f)
	}
	{
		f := &Family{Name: "XChaCha20Poly1305", URL: URLPrefix + "XChaCha20Poly1305Key", Label: tinkpb.KeyData_SYMMETRIC, Class: ClassAEAD}
		f.Enum = func(th bool, sh *Shard, emit EmitFn) {
			for _, v := range enumDomain(3) {
				kv, dv := vOf(var4, v)
				p, err := xchacha20poly1305.NewParameters(xchacha20poly1305.Variant(v))
				emit(fmt.Sprintf("variant=%d", v), dv, kv, p, err)
			}
		}
		f.Keys = func(p key.Parameters, v ref.KSVariant, id uint32, th bool) ([]*KeyCase, error) {
			pp := p.(*xchacha20poly1305.Parameters)
			var out []*KeyCase
			for _, m := range symShapes("xchacha", 32, th) {
				k, err := xchacha20poly1305.NewKey(sb(m.B), idFor(v, id), pp)
				if err != nil {
					return nil, err
				}
				out = append(out, sym(&KeyCase{Fam: f, Desc: v.String(), P: p, Variant: v, ID: idFor(v, id), Key: k}, m))
			}
			return out, nil
		}
		f.Rep = func(i int) (key.Parameters, ref.KSVariant) {
			vs := []int{1, 3, 2}
			v := vs[i%3]
			p, err := xchacha20poly1305.NewParameters(xchacha20poly1305.Variant(v))
			must(err)
			return p, var4[v]
		}
		register(f)
	}
	// ---------------------------------------------------------------- X-AES-GCM
	{
		f := &Family{Name: "XAesGcm", URL: URLPrefix + "XAesGcmKey", Label: tinkpb.KeyData_SYMMETRIC, Class: ClassAEAD}
		f.Enum = func(th bool, sh *Shard, emit EmitFn) {
			for _, ss := range Sizes(th) {
				for _, v := range enumDomain(2) {
					kv, dv := vOf(var3, v)
					p, err := xaesgcm.NewParameters(xaesgcm.Variant(v), ss)
					emit(fmt.Sprintf("salt=%d variant=%d", ss, v), dv, kv, p, err)
				}
			}
		}
		f.Keys = func(p key.Parameters, v ref.KSVariant, id uint32, th bool) ([]*KeyCase, error) {
			pp := p.(*xaesgcm.Parameters)
			var out []*KeyCase
			for _, m := range symShapes("xaesgcm", 32, th) {
				k, err := xaesgcm.NewKey(sb(m.B), idFor(v, id), pp)
				if err != nil {
					return nil, err
				}
				out = append(out, sym(&KeyCase{Fam: f, Desc: fmt.Sprintf("salt=%d %v", pp.SaltSizeInBytes(), v), P: p, Variant: v, ID: idFor(v, id), Key: k}, m))
			}
			return out, nil
		}
		f.Rep = func(i int) (key.Parameters, ref.KSVariant) {
			vs := []int{1, 2}
			v := vs[i%2]
			p, err := xaesgcm.NewParameters(xaesgcm.Variant(v), 12)
			must(err)
			return p, var3[v]
		}
		register(f)
	}
	// ---------------------------------------------------------------- AES-CTR-HMAC AEAD
	{
		f := &Family{Name: "AesCtrHmacAead", URL: URLPrefix + "AesCtrHmacAeadKey", Label: tinkpb.KeyData_SYMMETRIC, Class: ClassAEAD}
		f.Enum = func(th bool, sh *Shard, emit EmitFn) {
			for _, ak := range SmallSizes(th) {
				hks := SmallSizes(false)
				if th {
					hks = Sizes(th)
				}
				for hi, hk := range hks {
					if !sh.Outer(hi) {
						continue
					}
					for _, iv := range SmallSizes(th) {
						for _, ts := range Sizes(th) {
							for _, h := range enumDomain(5) {
								for _, v := range enumDomain(3) {
									kv, dv := vOf(var4, v)
									p, err := aesctrhmac.NewParameters(aesctrhmac.ParametersOpts{AESKeySizeInBytes: ak, HMACKeySizeInBytes: hk, IVSizeInBytes: iv, TagSizeInBytes: ts, HashType: aesctrhmac.HashType(h), Variant: aesctrhmac.Variant(v)})
									emit(fmt.Sprintf("aes=%d hmac=%d iv=%d tag=%d hash=%d variant=%d", ak, hk, iv, ts, h, v), dv && declared(h, 5), kv, p, err)
								}
							}
						}
					}
				}
			}
		}
		f.Keys = func(p key.Parameters, v ref.KSVariant, id uint32, th bool) ([]*KeyCase, error) {
			pp := p.(*aesctrhmac.Parameters)
			var out []*KeyCase
			as := symShapes("aesctrhmac/aes", pp.AESKeySizeInBytes(), th)
			hs := symShapes("aesctrhmac/hmac", pp.HMACKeySizeInBytes(), th)
			for i := range as {
				a, hm := as[i], hs[i%len(hs)]
				k, err := aesctrhmac.NewKey(aesctrhmac.KeyOpts{AESKeyBytes: sb(a.B), HMACKeyBytes: sb(hm.B), IDRequirement: idFor(v, id), Parameters: pp})
				if err != nil {
					return nil, err
				}
				kc := &KeyCase{Fam: f, P: p, Variant: v, ID: idFor(v, id), Key: k}
				kc.Mat = []Mat{{Name: "aes:" + a.Name, B: a.B, Secret: true}, {Name: "hmac:" + hm.Name, B: hm.B, Secret: true}}
				kc.Desc = fmt.Sprintf("AesCtrHmacAead aes=%d hmac=%d iv=%d tag=%d hash=%v %v id=%#x material=%s", pp.AESKeySizeInBytes(), pp.HMACKeySizeInBytes(), pp.IVSizeInBytes(), pp.TagSizeInBytes(), pp.HashType(), v, kc.ID, a.Name)
				out = append(out, kc)
			}
			return out, nil
		}
		f.Rep = func(i int) (key.Parameters, ref.KSVariant) {
			vs := []int{1, 3, 2}
			v := vs[i%3]
			p, err := aesctrhmac.NewParameters(aesctrhmac.ParametersOpts{AESKeySizeInBytes: 32, HMACKeySizeInBytes: 32, IVSizeInBytes: 16, TagSizeInBytes: 32, HashType: aesctrhmac.SHA256, Variant: aesctrhmac.Variant(v)})
			must(err)
			return p, var4[v]
		}
		register(f)
	}
	// ---------------------------------------------------------------- streaming AEADs (no prefix)
	segs := func(th bool) []int32 {
		if th {
			return []int32{-1, 0, 1, 16, 24, 25, 31, 32, 33, 40, 41, 47, 48, 49, 56, 57, 64, 72, 73, 80, 81, 88, 89, 96, 97, 100, 128, 256, 4096, 1 << 20, 1<<31 - 1}
		}
		return []int32{-1, 0, 16, 40, 41, 48, 57, 72, 73, 89, 100, 4096, 1 << 20, 1<<31 - 1}
	}
	{
		f := &Family{Name: "AesGcmHkdfStreaming", URL: URLPrefix + "AesGcmHkdfStreamingKey", Label: tinkpb.KeyData_SYMMETRIC, Class: ClassStreaming, NoPrefix: true}
		f.Enum = func(th bool, sh *Shard, emit EmitFn) {
			for _, ks := range Sizes(th) {
				for _, dk := range SmallSizes(th) {
					for _, h := range enumDomain(3) {
						for _, sg := range segs(th) {
							p, err := aesgcmhkdf.NewParameters(aesgcmhkdf.ParametersOpts{KeySizeInBytes: ks, DerivedKeySizeInBytes: dk, HKDFHashType: aesgcmhkdf.HashType(h), SegmentSizeInBytes: sg})
							emit(fmt.Sprintf("key=%d derived=%d hash=%d segment=%d", ks, dk, h, sg), declared(h, 3), ref.KSRaw, p, err)
						}
					}
				}
			}
		}
		f.Keys = func(p key.Parameters, v ref.KSVariant, id uint32, th bool) ([]*KeyCase, error) {
			pp := p.(*aesgcmhkdf.Parameters)
			var out []*KeyCase
			for _, m := range symShapes("aesgcmhkdf", pp.KeySizeInBytes(), th) {
				k, err := aesgcmhkdf.NewKey(pp, sb(m.B))
				if err != nil {
					return nil, err
				}
				out = append(out, sym(&KeyCase{Fam: f, Desc: fmt.Sprintf("key=%d derived=%d hash=%v segment=%d", pp.KeySizeInBytes(), pp.DerivedKeySizeInBytes(), pp.HKDFHashType(), pp.SegmentSizeInBytes()), P: p, Variant: ref.KSRaw, Key: k}, m))
			}
			return out, nil
		}
		f.Rep = func(i int) (key.Parameters, ref.KSVariant) {
			p, err := aesgcmhkdf.NewParameters(aesgcmhkdf.ParametersOpts{KeySizeInBytes: 32, DerivedKeySizeInBytes: 32, HKDFHashType: aesgcmhkdf.SHA256, SegmentSizeInBytes: 256})
			must(err)
			return p, ref.KSRaw
		}
		register(f)
	}
	{
		f := &Family{Name: "AesCtrHmacStreaming", URL: URLPrefix + "AesCtrHmacStreamingKey", Label: tinkpb.KeyData_SYMMETRIC, Class: ClassStreaming, NoPrefix: true}
		f.Enum = func(th bool, sh *Shard, emit EmitFn) {
			kss := SmallSizes(th)
			for _, ks := range kss {
				for di, dk := range SmallSizes(false) {
					if !sh.Outer(di) {
						continue
					}
					for _, h1 := range enumDomain(3) {
						for _, h2 := range enumDomain(3) {
							for _, ts := range Sizes(th) {
								for _, sg := range segs(th) {
									p, err := sactrhmac.NewParameters(sactrhmac.ParametersOpts{KeySizeInBytes: ks, DerivedKeySizeInBytes: dk, HkdfHashType: sactrhmac.HashType(h1), HmacHashType: sactrhmac.HashType(h2), HmacTagSizeInBytes: ts, SegmentSizeInBytes: sg})
									emit(fmt.Sprintf("key=%d derived=%d hkdf=%d hmac=%d tag=%d segment=%d", ks, dk, h1, h2, ts, sg), declared(h1, 3) && declared(h2, 3), ref.KSRaw, p, err)
								}
							}
						}
					}
				}
			}
		}
		f.Keys = func(p key.Parameters, v ref.KSVariant, id uint32, th bool) ([]*KeyCase, error) {
			pp := p.(*sactrhmac.Parameters)
			var out []*KeyCase
			for _, m := range symShapes("saeadctrhmac", pp.KeySizeInBytes(), th) {
				k, err := sactrhmac.NewKey(pp, sb(m.B))
				if err != nil {
					return nil, err
				}
				out = append(out, sym(&KeyCase{Fam: f, Desc: fmt.Sprintf("key=%d derived=%d hkdf=%v hmac=%v tag=%d segment=%d", pp.KeySizeInBytes(), pp.DerivedKeySizeInBytes(), pp.HkdfHashType(), pp.HmacHashType(), pp.HmacTagSizeInBytes(), pp.SegmentSizeInBytes()), P: p, Variant: ref.KSRaw, Key: k}, m))
			}
			return out, nil
		}
		f.Rep = func(i int) (key.Parameters, ref.KSVariant) {
			p, err := sactrhmac.NewParameters(sactrhmac.ParametersOpts{KeySizeInBytes: 32, DerivedKeySizeInBytes: 32, HkdfHashType: sactrhmac.SHA256, HmacHashType: sactrhmac.SHA256, HmacTagSizeInBytes: 32, SegmentSizeInBytes: 256})
			must(err)
			return p, ref.KSRaw
		}
		register(f)
	}
}

func must(err error) {
	if err != nil {
		panic(err)
	}
}
