package keycat

import (
	"fmt"

	"github.com/tink-crypto/tink-go/v2/aead/aesctrhmac"
	"github.com/tink-crypto/tink-go/v2/aead/aesgcm"
	"github.com/tink-crypto/tink-go/v2/aead/xchacha20poly1305"
	"github.com/tink-crypto/tink-go/v2/daead/aessiv"
	"github.com/tink-crypto/tink-go/v2/hybrid/ecies"
	"github.com/tink-crypto/tink-go/v2/hybrid/hpke"
	"github.com/tink-crypto/tink-go/v2/key"
	"github.com/tink-crypto/tink-go/v2/mac/hmac"
	tinkpb "github.com/tink-crypto/tink-go/v2/proto/tink_go_proto"
	"verif/ref"
)

// DEMs: the six DEM parameter sets the ECIES wire format admits plus near misses.
type demCand struct {
	name string
	p    key.Parameters
}

func eciesDEMs() []demCand {
	gcm := func(ks, iv, tag int, v aesgcm.Variant) key.Parameters {
		p, err := aesgcm.NewParameters(aesgcm.ParametersOpts{KeySizeInBytes: ks, IVSizeInBytes: iv, TagSizeInBytes: tag, Variant: v})
		must(err)
		return p
	}
	ctr := func(ak, hk, iv, tag int, h aesctrhmac.HashType, v aesctrhmac.Variant) key.Parameters {
		p, err := aesctrhmac.NewParameters(aesctrhmac.ParametersOpts{AESKeySizeInBytes: ak, HMACKeySizeInBytes: hk, IVSizeInBytes: iv, TagSizeInBytes: tag, HashType: h, Variant: v})
		must(err)
		return p
	}
	siv := func(ks int, v aessiv.Variant) key.Parameters {
		p, err := aessiv.NewParameters(ks, v)
		must(err)
		return p
	}
	xc := func(v xchacha20poly1305.Variant) key.Parameters {
		p, err := xchacha20poly1305.NewParameters(v)
		must(err)
		return p
	}
	hm, err := hmac.NewParameters(hmac.ParametersOpts{KeySizeInBytes: 32, TagSizeInBytes: 16, HashType: hmac.SHA256, Variant: hmac.VariantNoPrefix})
	must(err)
	return []demCand{
		{"AES128-GCM", gcm(16, 12, 16, aesgcm.VariantNoPrefix)},
		{"AES256-GCM", gcm(32, 12, 16, aesgcm.VariantNoPrefix)},
		{"AES256-SIV", siv(64, aessiv.VariantNoPrefix)},
		{"XCHACHA20-POLY1305", xc(xchacha20poly1305.VariantNoPrefix)},
		{"AES128-CTR-HMAC-SHA256", ctr(16, 32, 16, 16, aesctrhmac.SHA256, aesctrhmac.VariantNoPrefix)},
		{"AES256-CTR-HMAC-SHA256", ctr(32, 32, 16, 32, aesctrhmac.SHA256, aesctrhmac.VariantNoPrefix)},
		// near misses
		{"AES128-GCM/TINK", gcm(16, 12, 16, aesgcm.VariantTink)},
		{"AES256-GCM/tag12", gcm(32, 12, 12, aesgcm.VariantNoPrefix)},
		{"XCHACHA/TINK", xc(xchacha20poly1305.VariantTink)},
		{"AES-SIV/TINK", siv(64, aessiv.VariantTink)},
		{"AES256-CTR-HMAC-SHA256/tag16", ctr(32, 32, 16, 16, aesctrhmac.SHA256, aesctrhmac.VariantNoPrefix)},
		{"AES128-CTR-HMAC-SHA512", ctr(16, 32, 16, 16, aesctrhmac.SHA512, aesctrhmac.VariantNoPrefix)},
		{"HMAC(not an AEAD)", hm},
	}
}

var eciesCurve = map[int]string{1: "P256", 2: "P384", 3: "P521", 4: "X25519"}

var hpkeKEM = map[int]string{1: "P256", 2: "P384", 3: "P521", 4: "X25519", 5: "XWING", 6: "MLKEM768", 7: "MLKEM1024"}

// kemShapes: key pairs for the non-DH KEMs (private key = seed).
func kemShapes(kem string, th bool) []ECMat {
	all := cached("kem/"+kem, func() []ECMat {
		n := 64
		if kem == "XWING" {
			n = 32
		}
		var out []ECMat
		for _, s := range symShapes("kem-"+kem, n, true) {
			var pub []byte
			var err error
			switch kem {
			case "XWING":
				pub, err = ref.KSXWingPublic(s.B)
			case "MLKEM768":
				pub, err = ref.KSMLKEMPublic(768, s.B)
			default:
				pub, err = ref.KSMLKEMPublic(1024, s.B)
			}
			must(err)
			out = append(out, ECMat{s.Name, s.B, pub})
		}
		return out
	})
	if th {
		return all
	}
	return all[:2]
}

func init() {
	// ---------------------------------------------------------------- ECIES-AEAD-HKDF
	{
		f := &Family{Name: "EciesAeadHkdf", URL: URLPrefix + "EciesAeadHkdfPrivateKey", PubURL: URLPrefix + "EciesAeadHkdfPublicKey", Label: tinkpb.KeyData_ASYMMETRIC_PRIVATE, Class: ClassHybridDecrypt}
		f.Enum = func(th bool, sh *Shard, emit EmitFn) {
			salts := [][]byte{nil, {}, ref.Pattern(2, 5), ref.Pattern(3, 32)}
			if th {
				salts = append(salts, []byte{0}, make([]byte, 16), ref.Pattern(3, 70), ref.Pattern(3, 1000))
			}
			for _, c := range enumDomain(4) {
				for _, h := range enumDomain(5) {
					for _, pf := range enumDomain(3) {
						for _, d := range eciesDEMs() {
							for si, s := range salts {
								for _, v := range enumDomain(3) {
									kv, dv := vOf(var4, v)
									p, err := ecies.NewParameters(ecies.ParametersOpts{CurveType: ecies.CurveType(c), HashType: ecies.HashType(h), NISTCurvePointFormat: ecies.PointFormat(pf), DEMParameters: d.p, Salt: s, Variant: ecies.Variant(v)})
									emit(fmt.Sprintf("curve=%d hash=%d pointformat=%d dem=%s salt#%d(len %d) variant=%d", c, h, pf, d.name, si, len(s), v), dv && declared(c, 4) && declared(h, 5) && declared(pf, 3), kv, p, err)
								}
							}
						}
					}
				}
			}
		}
		f.Keys = func(p key.Parameters, v ref.KSVariant, id uint32, th bool) ([]*KeyCase, error) {
			pp := p.(*ecies.Parameters)
			curve, ok := eciesCurve[int(pp.CurveType())]
			if !ok {
				return nil, nil
			}
			var out []*KeyCase
			for _, m := range ecShapes(curve, th) {
				pub, err := ecies.NewPublicKey(m.Pub, idFor(v, id), pp)
				if err != nil {
					return nil, err
				}
				k, err := ecies.NewPrivateKey(sb(m.Scalar), idFor(v, id), pp)
				if err != nil {
					return nil, err
				}
				out = append(out, &KeyCase{Fam: f, P: p, Variant: v, ID: idFor(v, id), Key: k, Pub: pub, Mat: ecMats(m, curve != "X25519"),
					Desc: fmt.Sprintf("EciesAeadHkdf %v %v %v dem=%v salt=%x %v id=%#x material=%s", pp.CurveType(), pp.HashType(), pp.NISTCurvePointFormat(), pp.DEMParameters(), pp.Salt(), v, idFor(v, id), m.Shape)})
			}
			return out, nil
		}
		f.Rep = func(i int) (key.Parameters, ref.KSVariant) {
			vs := []int{1, 3, 2}
			v := vs[i%3]
			p, err := ecies.NewParameters(ecies.ParametersOpts{CurveType: ecies.NISTP256, HashType: ecies.SHA256, NISTCurvePointFormat: ecies.UncompressedPointFormat, DEMParameters: eciesDEMs()[0].p, Salt: []byte("salt"), Variant: ecies.Variant(v)})
			must(err)
			return p, var4[v]
		}
		register(f)
	}
	// ---------------------------------------------------------------- HPKE
	{
		f := &Family{Name: "Hpke", URL: URLPrefix + "HpkePrivateKey", PubURL: URLPrefix + "HpkePublicKey", Label: tinkpb.KeyData_ASYMMETRIC_PRIVATE, Class: ClassHybridDecrypt}
		f.Enum = func(th bool, sh *Shard, emit EmitFn) {
			for _, kem := range enumDomain(7) {
				for _, kdf := range enumDomain(3) {
					for _, a := range enumDomain(3) {
						for _, v := range enumDomain(3) {
							kv, dv := vOf(var4, v)
							p, err := hpke.NewParameters(hpke.ParametersOpts{KEMID: hpke.KEMID(kem), KDFID: hpke.KDFID(kdf), AEADID: hpke.AEADID(a), Variant: hpke.Variant(v)})
							emit(fmt.Sprintf("kem=%d kdf=%d aead=%d variant=%d", kem, kdf, a, v), dv && declared(kem, 7) && declared(kdf, 3) && declared(a, 3), kv, p, err)
						}
					}
				}
			}
		}
		f.Keys = func(p key.Parameters, v ref.KSVariant, id uint32, th bool) ([]*KeyCase, error) {
			pp := p.(*hpke.Parameters)
			kem, ok := hpkeKEM[int(pp.KEMID())]
			if !ok {
				return nil, nil
			}
			var ms []ECMat
			switch kem {
			case "XWING", "MLKEM768", "MLKEM1024":
				ms = kemShapes(kem, th)
			default:
				ms = ecShapes(kem, th)
			}
			var out []*KeyCase
			for _, m := range ms {
				pub, err := hpke.NewPublicKey(m.Pub, idFor(v, id), pp)
				if err != nil {
					return nil, err
				}
				k, err := hpke.NewPrivateKey(sb(m.Scalar), idFor(v, id), pp)
				if err != nil {
					return nil, err
				}
				out = append(out, &KeyCase{Fam: f, P: p, Variant: v, ID: idFor(v, id), Key: k, Pub: pub, Mat: ecMats(m, kem[0] == 'P'),
					Desc: fmt.Sprintf("Hpke %v %v %v %v id=%#x material=%s", pp.KEMID(), pp.KDFID(), pp.AEADID(), v, idFor(v, id), m.Shape)})
			}
			return out, nil
		}
		f.Rep = func(i int) (key.Parameters, ref.KSVariant) {
			vs := []int{1, 3, 2}
			v := vs[i%3]
			p, err := hpke.NewParameters(hpke.ParametersOpts{KEMID: hpke.DHKEM_X25519_HKDF_SHA256, KDFID: hpke.HKDFSHA256, AEADID: hpke.AES128GCM, Variant: hpke.Variant(v)})
			must(err)
			return p, var4[v]
		}
		register(f)
	}
}
