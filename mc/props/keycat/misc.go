package keycat

import (
	"fmt"

	"google.golang.org/protobuf/proto"

	"github.com/tink-crypto/tink-go/v2/aead"
	"github.com/tink-crypto/tink-go/v2/key"
	"github.com/tink-crypto/tink-go/v2/keyderivation/prfbasedkeyderivation"
	"github.com/tink-crypto/tink-go/v2/mac/hmac"
	"github.com/tink-crypto/tink-go/v2/prf/aescmacprf"
	"github.com/tink-crypto/tink-go/v2/prf/hkdfprf"
	"github.com/tink-crypto/tink-go/v2/prf/hmacprf"
	kmsepb "github.com/tink-crypto/tink-go/v2/proto/kms_envelope_go_proto"
	tinkpb "github.com/tink-crypto/tink-go/v2/proto/tink_go_proto"
	"github.com/tink-crypto/tink-go/v2/verifbridge/vb"
	"verif/ref"
)

// FakeKMSURI is the KEK URI of the KmsEnvelopeAead representative; the harnesses register a fake KMS
// client for the prefix.
const FakeKMSURI = "fake-kms://verif/kek1"

var prefixPB = map[ref.KSVariant]tinkpb.OutputPrefixType{ref.KSTink: tinkpb.OutputPrefixType_TINK, ref.KSCrunchy: tinkpb.OutputPrefixType_CRUNCHY,
	ref.KSLegacy: tinkpb.OutputPrefixType_LEGACY, ref.KSRaw: tinkpb.OutputPrefixType_RAW, ref.KSRawWithID: tinkpb.OutputPrefixType_WITH_ID_REQUIREMENT}

// fallbackKeys builds keys of a type without registered parser through the proto path
// (protoserialization.FallbackProtoKey).
func fallbackKeys(f *Family, values map[string][]byte, id uint32, secret bool) ([]*KeyCase, error) {
	var out []*KeyCase
	for _, v := range []ref.KSVariant{ref.KSTink, ref.KSRaw, ref.KSCrunchy, ref.KSLegacy} {
		for _, name := range sortedKeys(values) {
			val := values[name]
			kd := &tinkpb.KeyData{TypeUrl: f.URL, Value: val, KeyMaterialType: f.Label}
			k, err := vb.ParseKey(kd, prefixPB[v], idFor(v, id))
			if err != nil {
				return nil, err
			}
			out = append(out, &KeyCase{Fam: f, P: k.Parameters(), Variant: v, ID: idFor(v, id), Key: k,
				Mat:  []Mat{{Name: "whole-value", B: val, Secret: secret}},
				Desc: fmt.Sprintf("%s %v id=%#x value=%s", f.Name, v, idFor(v, id), name)})
		}
	}
	return out, nil
}

func sortedKeys(m map[string][]byte) []string {
	var out []string
	for k := range m {
		out = append(out, k)
	}
	for i := range out {
		for j := i + 1; j < len(out); j++ {
			if out[j] < out[i] {
				out[i], out[j] = out[j], out[i]
			}
		}
	}
	return out
}

// derivedCandidates: one parameter object per (family, variant) of every other family.
func derivedCandidates(th bool) []struct {
	name string
	p    key.Parameters
	v    ref.KSVariant
} {
	var out []struct {
		name string
		p    key.Parameters
		v    ref.KSVariant
	}
	for _, f := range Families() {
		if f.Rep == nil || f.Name == "PrfBasedDeriver" || f.KeysOnly != nil {
			continue
		}
		seen := map[ref.KSVariant]bool{}
		for i := 0; i < 5; i++ {
			p, v := f.Rep(i)
			if seen[v] && !(f.NoPrefix && i < 3) {
				continue
			}
			seen[v] = true
			out = append(out, struct {
				name string
				p    key.Parameters
				v    ref.KSVariant
			}{fmt.Sprintf("%s#%d", f.Name, i), p, v})
		}
	}
	return out
}

func init() {
	// ---------------------------------------------------------------- PRF-based key deriver
	{
		f := &Family{Name: "PrfBasedDeriver", URL: URLPrefix + "PrfBasedDeriverKey", Label: tinkpb.KeyData_SYMMETRIC, Class: ClassDeriver, NoPrefix: true}
		prfs := func(th bool) []struct {
			name string
			p    key.Parameters
		} {
			mk := func(name string, p key.Parameters, err error) struct {
				name string
				p    key.Parameters
			} {
				must(err)
				return struct {
					name string
					p    key.Parameters
				}{name, p}
			}
			cm, err := aescmacprf.NewParameters(32)
			h1, e1 := hmacprf.NewParameters(32, hmacprf.SHA256)
			h2, e2 := hmacprf.NewParameters(64, hmacprf.SHA512)
			k1, e3 := hkdfprf.NewParameters(32, hkdfprf.SHA256, []byte("salt"))
			k2, e4 := hkdfprf.NewParameters(48, hkdfprf.SHA512, nil)
			notPRF, e5 := hmac.NewParameters(hmac.ParametersOpts{KeySizeInBytes: 32, TagSizeInBytes: 16, HashType: hmac.SHA256, Variant: hmac.VariantNoPrefix})
			out := []struct {
				name string
				p    key.Parameters
			}{mk("AesCmacPrf32", &cm, err), mk("HmacPrf32-SHA256", h1, e1), mk("HkdfPrf32-SHA256-salt", k1, e3), mk("Hmac(not a PRF)", notPRF, e5)}
			if th {
				out = append(out, mk("HmacPrf64-SHA512", h2, e2), mk("HkdfPrf48-SHA512-nosalt", k2, e4))
				cm16, err := aescmacprf.NewParameters(16)
				out = append(out, mk("AesCmacPrf16", &cm16, err))
			}
			return out
		}
		f.Enum = func(th bool, sh *Shard, emit EmitFn) {
			for _, pr := range prfs(th) {
				for _, d := range derivedCandidates(th) {
					p, err := prfbasedkeyderivation.NewParameters(pr.p, d.p)
					emit(fmt.Sprintf("prf=%s derived=%s(%v)", pr.name, d.name, d.v), true, d.v, p, err)
				}
			}
		}
		f.Keys = func(p key.Parameters, v ref.KSVariant, id uint32, th bool) ([]*KeyCase, error) {
			pp := p.(*prfbasedkeyderivation.Parameters)
			var fam *Family
			switch pp.PRFParameters().(type) {
			case *aescmacprf.Parameters:
				fam = ByName("AesCmacPrf")
			case *hmacprf.Parameters:
				fam = ByName("HmacPrf")
			case *hkdfprf.Parameters:
				fam = ByName("HkdfPrf")
			default:
				return nil, nil
			}
			prfKeys, err := fam.Keys(pp.PRFParameters(), ref.KSRaw, 0, th)
			if err != nil {
				return nil, err
			}
			var out []*KeyCase
			for _, pk := range prfKeys {
				k, err := prfbasedkeyderivation.NewKey(pp, pk.Key, idFor(v, id))
				if err != nil {
					return nil, err
				}
				out = append(out, &KeyCase{Fam: f, P: p, Variant: v, ID: idFor(v, id), Key: k, Mat: pk.Mat,
					Desc: fmt.Sprintf("PrfBasedDeriver derived=%T(%v) id=%#x prf=[%s]", pp.DerivedKeyParameters(), v, idFor(v, id), pk.Desc)})
			}
			return out, nil
		}
		f.Rep = func(i int) (key.Parameters, ref.KSVariant) {
			pr, err := hkdfprf.NewParameters(32, hkdfprf.SHA256, []byte("salt"))
			must(err)
			d, v := ByName("AesGcm").Rep(i)
			p, err := prfbasedkeyderivation.NewParameters(pr, d)
			must(err)
			return p, v
		}
		register(f)
	}
	// ---------------------------------------------------------------- KMS envelope AEAD (no registered parser: FallbackProtoKey)
	{
		f := &Family{Name: "KmsEnvelopeAead", URL: URLPrefix + "KmsEnvelopeAeadKey", Label: tinkpb.KeyData_REMOTE, Class: ClassAEAD}
		f.KeysOnly = func(id uint32, th bool) ([]*KeyCase, error) {
			vals := map[string][]byte{}
			for name, dek := range map[string]*tinkpb.KeyTemplate{"dek=AES128GCM": aead.AES128GCMKeyTemplate(), "dek=XCHACHA20POLY1305": aead.XChaCha20Poly1305KeyTemplate()} {
				b, err := proto.Marshal(&kmsepb.KmsEnvelopeAeadKey{Version: 0, Params: &kmsepb.KmsEnvelopeAeadKeyFormat{KekUri: FakeKMSURI, DekTemplate: dek}})
				must(err)
				vals[name] = b
				if !th {
					break
				}
			}
			if !th {
				// deterministic choice in the quick tier
				b, err := proto.Marshal(&kmsepb.KmsEnvelopeAeadKey{Version: 0, Params: &kmsepb.KmsEnvelopeAeadKeyFormat{KekUri: FakeKMSURI, DekTemplate: aead.AES128GCMKeyTemplate()}})
				must(err)
				vals = map[string][]byte{"dek=AES128GCM": b}
			}
			return fallbackKeys(f, vals, id, false)
		}
		register(f)
	}
	// ---------------------------------------------------------------- a key type unknown to the tree (custom key manager route)
	{
		f := &Family{Name: "CustomSymmetric", URL: "type.googleapis.com/verif.CustomSymmetricKey", Label: tinkpb.KeyData_SYMMETRIC, Class: ClassNone}
		f.KeysOnly = func(id uint32, th bool) ([]*KeyCase, error) {
			vals := map[string][]byte{"rnd40": ref.KeyBytes("custom-sym", 40)}
			if th {
				vals["empty"] = []byte{}
				vals["zero32"] = make([]byte, 32)
			}
			return fallbackKeys(f, vals, id, true)
		}
		register(f)
	}
}
