package keycat

import (
	"crypto/mldsaref"
	"fmt"

	"github.com/tink-crypto/tink-go/v2/key"
	tinkpb "github.com/tink-crypto/tink-go/v2/proto/tink_go_proto"
	"github.com/tink-crypto/tink-go/v2/signature/compositemldsa"
	"github.com/tink-crypto/tink-go/v2/signature/ecdsa"
	"github.com/tink-crypto/tink-go/v2/signature/ed25519"
	"github.com/tink-crypto/tink-go/v2/signature/mldsa"
	"github.com/tink-crypto/tink-go/v2/signature/rsassapkcs1"
	"github.com/tink-crypto/tink-go/v2/signature/rsassapss"
	"github.com/tink-crypto/tink-go/v2/signature/slhdsa"
	"verif/ref"
)

var varMLDSA = map[int]ref.KSVariant{1: ref.KSTink, 2: ref.KSRaw, 3: ref.KSRawWithID}

var curveNames = map[int]string{1: "P256", 2: "P384", 3: "P521"}

// MLDSAMat: seed and independently derived public key (Go stdlib FIPS 204 implementation).
type MLDSAMat struct {
	Shape     string
	Seed, Pub []byte
}

func mldsaShapes(inst int, th bool) []MLDSAMat {
	all := cached(fmt.Sprintf("mldsa/%d", inst), func() []MLDSAMat {
		var out []MLDSAMat
		for _, s := range symShapes(fmt.Sprintf("mldsa-%d", inst), 32, true) {
			pk, err := mldsaref.NewPrivateKey(inst, s.B)
			must(err)
			out = append(out, MLDSAMat{s.Name, s.B, mldsaref.PublicBytes(pk)})
		}
		return out
	})
	if th {
		return all
	}
	return all[:2]
}

// RSAMat is one RSA key with the shape of its encodings.
type RSAMat struct {
	Shape   string
	K       *ref.KSRSA
	Pad     int  // extra leading zero bytes given to the constructors (modulus, d, p, q)
	PubOnly bool // crafted modulus of the wanted bit length: public key only
	// Optional: a key shape the constructors may legitimately refuse (then it is left out of the catalogue)
	Optional bool
}

// craftedBits: modulus sizes that are not multiples of 8 / sit next to a byte boundary, served by crafted
// public-only moduli (2049 and 2055 additionally have an embedded real key).
var craftedBits = map[int]bool{2049: true, 2050: true, 2055: true, 2056: true, 2057: true}

// rsaShapes: keys available for (bits, e). Fixed primes; for e != 65537 the private exponent is
// recomputed. Shapes: two fixed keys, zero-padded inputs (thorough: both keys padded).
func rsaShapes(bits, e int, th bool) []RSAMat {
	_, std := ref.RSATestKeyHex[bits]
	_, odd := ref.KSRSAOddKeyHex[bits]
	if !std && !odd && !craftedBits[bits] {
		return nil
	}
	if !std {
		return cached(fmt.Sprintf("rsa-odd/%d/%d", bits, e), func() []RSAMat {
			var out []RSAMat
			if odd {
				k := ref.KSRSAFixed(bits, 0)
				ok := true
				if e != 65537 {
					k, ok = ref.KSRSAWithExponent(k, e)
				}
				if ok {
					out = append(out, RSAMat{Shape: "odd-fixed0", K: k})
				}
			}
			n := ref.KSRSACraftedModulus(bits)
			out = append(out, RSAMat{Shape: "crafted-public", K: ref.KSRSAPublicOnly(bits, e, n), PubOnly: true},
				RSAMat{Shape: "crafted-public+pad1", K: ref.KSRSAPublicOnly(bits, e, n), Pad: 1, PubOnly: true})
			return out
		})
	}
	all := cached(fmt.Sprintf("rsa/%d/%d", bits, e), func() []RSAMat {
		var out []RSAMat
		for idx := 0; idx < 2; idx++ {
			k := ref.KSRSAFixed(bits, idx)
			if e != 65537 {
				var ok bool
				if k, ok = ref.KSRSAWithExponent(k, e); !ok {
					continue
				}
			}
			out = append(out, RSAMat{Shape: fmt.Sprintf("fixed%d", idx), K: k})
		}
		if len(out) > 0 {
			out = append(out, RSAMat{Shape: out[0].Shape + "+pad1", K: out[0].K, Pad: 1})
		}
		return out
	})
	sel := all
	if !th && len(all) >= 2 {
		sel = []RSAMat{all[0], all[len(all)-1]}
	}
	if bits == 2048 && e == 65537 {
		// primes of different byte lengths (1088 / 960 bits), either one the long one: Optional = a constructor that
		// refuses such a key is not judged
		ub := cached("rsa-unbalanced/2048", func() []RSAMat {
			return []RSAMat{{Shape: "unbalanced-p-longer", K: ref.KSRSAUnbalanced(2048, true), Optional: true},
				{Shape: "unbalanced-q-longer", K: ref.KSRSAUnbalanced(2048, false), Optional: true}}
		})
		sel = append(append([]RSAMat{}, sel...), ub...)
	}
	return sel
}

// RSAShortDExponent returns a public exponent for which fixed key 0 of the given size has a private
// exponent shorter than the modulus (leading zero byte in fixed-width form); ok=false if none found.
func RSAShortDExponent(bits int) (int, bool) {
	type r struct {
		e  int
		ok bool
	}
	v := cached(fmt.Sprintf("rsa-shortd/%d", bits), func() r {
		k, ok := ref.KSRSAShortD(ref.KSRSAFixed(bits, 0), 65539, 4000)
		if !ok {
			return r{}
		}
		return r{k.E, true}
	})
	return v.e, v.ok
}

func pad(b []byte, n int) []byte { return append(make([]byte, n), b...) }

func rsaMats(m RSAMat) []Mat {
	k := m.K
	if m.PubOnly {
		return []Mat{{Name: "n", B: k.N, BigInt: true, Field: "n"}}
	}
	return []Mat{{Name: "n", B: k.N, BigInt: true, Field: "n"}, {Name: "d", B: k.D, Secret: true, BigInt: true, Field: "d"}, {Name: "p", B: k.P, Secret: true, BigInt: true, Field: "p"},
		{Name: "q", B: k.Q, Secret: true, BigInt: true, Field: "q"}, {Name: "dp", B: k.DP, Secret: true, BigInt: true, Field: "dp"}, {Name: "dq", B: k.DQ, Secret: true, BigInt: true, Field: "dq"},
		{Name: "qinv", B: k.QInv, Secret: true, BigInt: true, Field: "crt"}}
}

// rsaExponents is the over-large public-exponent domain.
func rsaExponents(th bool) []int {
	out := []int{-65537, 0, 1, 3, 65535, 65536, 65537, 65538, 65539, 1<<31 - 1, 1 << 31, 1<<31 + 1, 1<<32 + 1, 1<<62 + 1}
	if th {
		out = append(out, 17, 65541, 1<<16+15, 1<<24+1, 1<<33-1)
	}
	return out
}

func rsaBits(th bool) []int {
	out := []int{0, 1024, 2047, 2048, 2049, 3072, 4096}
	if th {
		out = append(out, -2048, 512, 2056, 3071, 4095, 8192, 16384, 1<<20)
	}
	return out
}

// rsaKeyExponent: the key domain uses e=65537, one alternative exponent and (2048 only) the short-d exponent.
func rsaKeyDomain(bits, e int, th bool) bool {
	if e == 65537 {
		return true
	}
	if e == 65539 && (th || bits == 2048 || bits == 2049) {
		return true
	}
	if se, ok := RSAShortDExponent(2048); ok && bits == 2048 && e == se {
		return true
	}
	return false
}

func init() {
	// ---------------------------------------------------------------- ECDSA
	{
		f := &Family{Name: "Ecdsa", URL: URLPrefix + "EcdsaPrivateKey", PubURL: URLPrefix + "EcdsaPublicKey", Label: tinkpb.KeyData_ASYMMETRIC_PRIVATE, Class: ClassSign}
		f.Enum = func(th bool, sh *Shard, emit EmitFn) {
			for _, c := range enumDomain(3) {
				for _, h := range enumDomain(3) {
					for _, e := range enumDomain(2) {
						for _, v := range enumDomain(4) {
							kv, dv := vOf(var5, v)
							p, err := ecdsa.NewParameters(ecdsa.CurveType(c), ecdsa.HashType(h), ecdsa.SignatureEncoding(e), ecdsa.Variant(v))
							emit(fmt.Sprintf("curve=%d hash=%d encoding=%d variant=%d", c, h, e, v), dv && declared(c, 3) && declared(h, 3) && declared(e, 2), kv, p, err)
						}
					}
				}
			}
		}
		f.Keys = func(p key.Parameters, v ref.KSVariant, id uint32, th bool) ([]*KeyCase, error) {
			pp := p.(*ecdsa.Parameters)
			var out []*KeyCase
			for _, m := range ecShapes(curveNames[int(pp.CurveType())], th) {
				pub, err := ecdsa.NewPublicKey(m.Pub, idFor(v, id), pp)
				if err != nil {
					return nil, err
				}
				k, err := ecdsa.NewPrivateKey(sb(m.Scalar), idFor(v, id), pp)
				if err != nil {
					return nil, err
				}
				out = append(out, &KeyCase{Fam: f, P: p, Variant: v, ID: idFor(v, id), Key: k, Pub: pub, Mat: ecMats(m, true),
					Desc: fmt.Sprintf("Ecdsa %v %v %v %v id=%#x material=%s", pp.CurveType(), pp.HashType(), pp.SignatureEncoding(), v, idFor(v, id), m.Shape)})
			}
			return out, nil
		}
		f.Rep = func(i int) (key.Parameters, ref.KSVariant) {
			vs := []int{1, 4, 2, 3}
			v := vs[i%4]
			p, err := ecdsa.NewParameters(ecdsa.NistP256, ecdsa.SHA256, ecdsa.DER, ecdsa.Variant(v))
			must(err)
			return p, var5[v]
		}
		register(f)
	}
	// ---------------------------------------------------------------- Ed25519
	{
		f := &Family{Name: "Ed25519", URL: URLPrefix + "Ed25519PrivateKey", PubURL: URLPrefix + "Ed25519PublicKey", Label: tinkpb.KeyData_ASYMMETRIC_PRIVATE, Class: ClassSign}
		f.Enum = func(th bool, sh *Shard, emit EmitFn) {
			for _, v := range enumDomain(4) {
				kv, dv := vOf(var5, v)
				p, err := ed25519.NewParameters(ed25519.Variant(v))
				emit(fmt.Sprintf("variant=%d", v), dv, kv, &p, err)
			}
		}
		f.Keys = func(p key.Parameters, v ref.KSVariant, id uint32, th bool) ([]*KeyCase, error) {
			pp := *p.(*ed25519.Parameters)
			var out []*KeyCase
			for _, m := range symShapes("ed25519", 32, true) {
				if !th && m.Name == "ff" {
					continue
				}
				pubBytes := ref.KSEd25519Public(m.B)
				pub, err := ed25519.NewPublicKey(pubBytes, idFor(v, id), pp)
				if err != nil {
					return nil, err
				}
				k, err := ed25519.NewPrivateKey(sb(m.B), idFor(v, id), pp)
				if err != nil {
					return nil, err
				}
				out = append(out, &KeyCase{Fam: f, P: p, Variant: v, ID: idFor(v, id), Key: k, Pub: pub,
					Mat:  []Mat{{Name: "seed", B: m.B, Secret: true}, {Name: "public", B: pubBytes}},
					Desc: fmt.Sprintf("Ed25519 %v id=%#x material=%s", v, idFor(v, id), m.Name)})
			}
			return out, nil
		}
		f.Rep = func(i int) (key.Parameters, ref.KSVariant) {
			vs := []int{1, 4, 2, 3}
			v := vs[i%4]
			p, err := ed25519.NewParameters(ed25519.Variant(v))
			must(err)
			return &p, var5[v]
		}
		register(f)
	}
	// ---------------------------------------------------------------- ML-DSA
	{
		f := &Family{Name: "MlDsa", URL: URLPrefix + "MlDsaPrivateKey", PubURL: URLPrefix + "MlDsaPublicKey", Label: tinkpb.KeyData_ASYMMETRIC_PRIVATE, Class: ClassSign}
		inst := map[int]int{1: 44, 2: 65, 3: 87}
		f.Enum = func(th bool, sh *Shard, emit EmitFn) {
			for _, in := range enumDomain(3) {
				for _, v := range enumDomain(3) {
					kv, dv := vOf(varMLDSA, v)
					p, err := mldsa.NewParameters(mldsa.Instance(in), mldsa.Variant(v))
					emit(fmt.Sprintf("instance=%d variant=%d", in, v), dv && declared(in, 3), kv, p, err)
				}
			}
		}
		f.Keys = func(p key.Parameters, v ref.KSVariant, id uint32, th bool) ([]*KeyCase, error) {
			pp := p.(*mldsa.Parameters)
			n, ok := inst[int(pp.Instance())]
			if !ok {
				return nil, nil
			}
			var out []*KeyCase
			for _, m := range mldsaShapes(n, th) {
				pub, err := mldsa.NewPublicKey(m.Pub, idFor(v, id), pp)
				if err != nil {
					return nil, err
				}
				k, err := mldsa.NewPrivateKey(sb(m.Seed), idFor(v, id), pp)
				if err != nil {
					return nil, err
				}
				out = append(out, &KeyCase{Fam: f, P: p, Variant: v, ID: idFor(v, id), Key: k, Pub: pub,
					Mat:  []Mat{{Name: "seed", B: m.Seed, Secret: true}, {Name: "public", B: m.Pub}},
					Desc: fmt.Sprintf("MlDsa %v %v id=%#x material=%s", pp.Instance(), v, idFor(v, id), m.Shape)})
			}
			return out, nil
		}
		f.Rep = func(i int) (key.Parameters, ref.KSVariant) {
			vs := []int{1, 2, 3}
			v := vs[i%3]
			p, err := mldsa.NewParameters(mldsa.MLDSA44, mldsa.Variant(v))
			must(err)
			return p, varMLDSA[v]
		}
		register(f)
	}
	// ---------------------------------------------------------------- SLH-DSA
	{
		f := &Family{Name: "SlhDsa", URL: URLPrefix + "SlhDsaPrivateKey", PubURL: URLPrefix + "SlhDsaPublicKey", Label: tinkpb.KeyData_ASYMMETRIC_PRIVATE, Class: ClassSign}
		f.Enum = func(th bool, sh *Shard, emit EmitFn) {
			for _, h := range enumDomain(2) {
				for _, ks := range []int{-64, 0, 16, 24, 32, 48, 63, 64, 65, 96, 128, 129, 192, 256} {
					for _, st := range enumDomain(2) {
						for _, v := range enumDomain(2) {
							kv, dv := vOf(var3, v)
							p, err := slhdsa.NewParameters(slhdsa.HashType(h), ks, slhdsa.SignatureType(st), slhdsa.Variant(v))
							emit(fmt.Sprintf("hash=%d keysize=%d sigtype=%d variant=%d", h, ks, st, v), dv && declared(h, 2) && declared(st, 2), kv, p, err)
						}
					}
				}
			}
		}
		f.Keys = func(p key.Parameters, v ref.KSVariant, id uint32, th bool) ([]*KeyCase, error) {
			pp := p.(*slhdsa.Parameters)
			small := pp.SignatureType() == slhdsa.SmallSignature
			// key domain: all "f" sets; the "s" sets (slow key derivation) only in the thorough tier, one key each
			if small && !th {
				return nil, nil
			}
			name := fmt.Sprintf("SLH-DSA-%s-%d%s", map[slhdsa.HashType]string{slhdsa.SHA2: "SHA2", slhdsa.SHAKE: "SHAKE"}[pp.HashType()], pp.KeySize()*2,
				map[bool]string{true: "s", false: "f"}[small])
			set := ref.SLHByName(name)
			if set == nil {
				return nil, fmt.Errorf("no reference parameter set %s", name)
			}
			type kp struct{ sk, pk []byte }
			shapes := []string{"rnd"}
			if th && !small {
				shapes = append(shapes, "zero")
			}
			var out []*KeyCase
			for _, shape := range shapes {
				m := cached("slh/"+name+"/"+shape, func() kp {
					n := set.N
					seed := ref.KeyBytes("slh-"+name, 3*n)
					if shape == "zero" {
						seed = make([]byte, 3*n)
					}
					sk, pk := set.KeygenInternal(seed[:n], seed[n:2*n], seed[2*n:])
					return kp{sk, pk}
				})
				pub, err := slhdsa.NewPublicKey(m.pk, idFor(v, id), pp)
				if err != nil {
					return nil, err
				}
				k, err := slhdsa.NewPrivateKey(sb(m.sk), idFor(v, id), pp)
				if err != nil {
					return nil, err
				}
				n := set.N
				out = append(out, &KeyCase{Fam: f, P: p, Variant: v, ID: idFor(v, id), Key: k, Pub: pub,
					Mat:  []Mat{{Name: "sk.seed||sk.prf", B: m.sk[:2*n], Secret: true}, {Name: "private", B: m.sk, Secret: true}, {Name: "public", B: m.pk}},
					Desc: fmt.Sprintf("SlhDsa %s %v id=%#x material=%s", name, v, idFor(v, id), shape)})
			}
			return out, nil
		}
		f.Rep = func(i int) (key.Parameters, ref.KSVariant) {
			vs := []int{1, 2}
			v := vs[i%2]
			p, err := slhdsa.NewParameters(slhdsa.SHA2, 64, slhdsa.FastSigning, slhdsa.Variant(v))
			must(err)
			return p, var3[v]
		}
		register(f)
	}
	// ---------------------------------------------------------------- RSA-SSA-PKCS1
	{
		f := &Family{Name: "RsaSsaPkcs1", URL: URLPrefix + "RsaSsaPkcs1PrivateKey", PubURL: URLPrefix + "RsaSsaPkcs1PublicKey", Label: tinkpb.KeyData_ASYMMETRIC_PRIVATE, Class: ClassSign}
		f.Enum = func(th bool, sh *Shard, emit EmitFn) {
			exps := rsaExponents(th)
			if se, ok := RSAShortDExponent(2048); ok {
				exps = append(exps, se)
			}
			for _, b := range rsaBits(th) {
				for _, h := range enumDomain(3) {
					for _, e := range exps {
						for _, v := range enumDomain(4) {
							kv, dv := vOf(var5, v)
							p, err := rsassapkcs1.NewParameters(b, rsassapkcs1.HashType(h), e, rsassapkcs1.Variant(v))
							emit(fmt.Sprintf("bits=%d hash=%d e=%d variant=%d", b, h, e, v), dv && declared(h, 3), kv, p, err)
						}
					}
				}
			}
		}
		f.Keys = func(p key.Parameters, v ref.KSVariant, id uint32, th bool) ([]*KeyCase, error) {
			pp := p.(*rsassapkcs1.Parameters)
			if !rsaKeyDomain(pp.ModulusSizeBits(), pp.PublicExponent(), th) {
				return nil, nil
			}
			var out []*KeyCase
			for _, m := range rsaShapes(pp.ModulusSizeBits(), pp.PublicExponent(), th) {
				pub, err := rsassapkcs1.NewPublicKey(pad(m.K.N, m.Pad), idFor(v, id), pp)
				if err != nil {
					return nil, err
				}
				var k key.Key
				if pp.PublicExponent() == 65537 && !m.PubOnly {
					// the signer (and NewPrivateKey's self check) supports e = 65537 only: other exponents: public key only
					k, err = rsassapkcs1.NewPrivateKey(pub, rsassapkcs1.PrivateKeyValues{P: sb(pad(m.K.P, m.Pad)), Q: sb(pad(m.K.Q, m.Pad)), D: sb(pad(m.K.D, m.Pad))})
					if err != nil && m.Optional {
						continue
					}
					if err != nil {
						return nil, err
					}
				}
				out = append(out, &KeyCase{Fam: f, P: p, Variant: v, ID: idFor(v, id), Key: k, Pub: pub, Mat: rsaMats(m),
					Desc: fmt.Sprintf("RsaSsaPkcs1 %d %v e=%d %v id=%#x material=%s", pp.ModulusSizeBits(), pp.HashType(), pp.PublicExponent(), v, idFor(v, id), m.Shape)})
			}
			return out, nil
		}
		f.Rep = func(i int) (key.Parameters, ref.KSVariant) {
			vs := []int{1, 4, 2, 3}
			v := vs[i%4]
			p, err := rsassapkcs1.NewParameters(2048, rsassapkcs1.SHA256, 65537, rsassapkcs1.Variant(v))
			must(err)
			return p, var5[v]
		}
		register(f)
	}
	// ---------------------------------------------------------------- RSA-SSA-PSS
	{
		f := &Family{Name: "RsaSsaPss", URL: URLPrefix + "RsaSsaPssPrivateKey", PubURL: URLPrefix + "RsaSsaPssPublicKey", Label: tinkpb.KeyData_ASYMMETRIC_PRIVATE, Class: ClassSign}
		f.Enum = func(th bool, sh *Shard, emit EmitFn) {
			exps := rsaExponents(th)
			if se, ok := RSAShortDExponent(2048); ok {
				exps = append(exps, se)
			}
			salts := []int{-1, 0, 1, 20, 32, 48, 64, 65, 222, 1000}
			if th {
				salts = append(enumRange(-1, 70), 190, 191, 222, 223, 1000, 1<<31-1)
			}
			for _, b := range rsaBits(th) {
				for _, h := range enumDomain(3) {
					for _, h2 := range enumDomain(3) {
						for _, e := range exps {
							for _, s := range salts {
								for _, v := range enumDomain(4) {
									kv, dv := vOf(var5, v)
									p, err := rsassapss.NewParameters(rsassapss.ParametersValues{ModulusSizeBits: b, SigHashType: rsassapss.HashType(h), MGF1HashType: rsassapss.HashType(h2), PublicExponent: e, SaltLengthBytes: s}, rsassapss.Variant(v))
									emit(fmt.Sprintf("bits=%d sighash=%d mgf1hash=%d e=%d salt=%d variant=%d", b, h, h2, e, s, v), dv && declared(h, 3) && declared(h2, 3), kv, p, err)
								}
							}
						}
					}
				}
			}
		}
		f.Keys = func(p key.Parameters, v ref.KSVariant, id uint32, th bool) ([]*KeyCase, error) {
			pp := p.(*rsassapss.Parameters)
			if !rsaKeyDomain(pp.ModulusSizeBits(), pp.PublicExponent(), th) {
				return nil, nil
			}
			// key domain: salt lengths 0, 1, hash length, 64 (all salts in parameters-only round trips)
			switch pp.SaltLengthBytes() {
			case 0, 1, 32, 48, 64:
			default:
				return nil, nil
			}
			var out []*KeyCase
			for _, m := range rsaShapes(pp.ModulusSizeBits(), pp.PublicExponent(), th) {
				pub, err := rsassapss.NewPublicKey(pad(m.K.N, m.Pad), idFor(v, id), pp)
				if err != nil {
					return nil, err
				}
				var k key.Key
				if pp.PublicExponent() == 65537 && !m.PubOnly {
					// the signer (and NewPrivateKey's self check) supports e = 65537 only: other exponents: public key only
					k, err = rsassapss.NewPrivateKey(pub, rsassapss.PrivateKeyValues{P: sb(pad(m.K.P, m.Pad)), Q: sb(pad(m.K.Q, m.Pad)), D: sb(pad(m.K.D, m.Pad))})
					if err != nil && m.Optional {
						continue
					}
					if err != nil {
						return nil, err
					}
				}
				out = append(out, &KeyCase{Fam: f, P: p, Variant: v, ID: idFor(v, id), Key: k, Pub: pub, Mat: rsaMats(m),
					Desc: fmt.Sprintf("RsaSsaPss %d %v/%v e=%d salt=%d %v id=%#x material=%s", pp.ModulusSizeBits(), pp.SigHashType(), pp.MGF1HashType(), pp.PublicExponent(), pp.SaltLengthBytes(), v, idFor(v, id), m.Shape)})
			}
			return out, nil
		}
		f.Rep = func(i int) (key.Parameters, ref.KSVariant) {
			vs := []int{1, 4, 2, 3}
			v := vs[i%4]
			p, err := rsassapss.NewParameters(rsassapss.ParametersValues{ModulusSizeBits: 2048, SigHashType: rsassapss.SHA256, MGF1HashType: rsassapss.SHA256, PublicExponent: 65537, SaltLengthBytes: 32}, rsassapss.Variant(v))
			must(err)
			return p, var5[v]
		}
		register(f)
	}
	// ---------------------------------------------------------------- composite ML-DSA
	{
		f := &Family{Name: "CompositeMlDsa", URL: URLPrefix + "CompositeMlDsaPrivateKey", PubURL: URLPrefix + "CompositeMlDsaPublicKey", Label: tinkpb.KeyData_ASYMMETRIC_PRIVATE, Class: ClassSign}
		f.Enum = func(th bool, sh *Shard, emit EmitFn) {
			for _, c := range enumDomain(8) {
				for _, in := range enumDomain(2) {
					for _, v := range enumDomain(2) {
						kv, dv := vOf(var3, v)
						p, err := compositemldsa.NewParameters(compositemldsa.ClassicalAlgorithm(c), compositemldsa.MLDSAInstance(in), compositemldsa.Variant(v))
						emit(fmt.Sprintf("classical=%d mldsa=%d variant=%d", c, in, v), dv && declared(c, 8) && declared(in, 2), kv, p, err)
					}
				}
			}
		}
		f.Keys = func(p key.Parameters, v ref.KSVariant, id uint32, th bool) ([]*KeyCase, error) {
			pp := p.(*compositemldsa.Parameters)
			inst := map[compositemldsa.MLDSAInstance]int{compositemldsa.MLDSA65: 65, compositemldsa.MLDSA87: 87}[pp.MLDSAInstance()]
			mlInst := map[int]mldsa.Instance{65: mldsa.MLDSA65, 87: mldsa.MLDSA87}[inst]
			mlp, err := mldsa.NewParameters(mlInst, mldsa.VariantNoPrefix)
			if err != nil {
				return nil, err
			}
			// classical component: parameters per draft-ietf-lamps-pq-composite-sigs as implemented by tink
			// (NoPrefix components; ECDSA DER; RSA e=65537; PSS salt = hash length)
			var cls []*KeyCase
			raw := ref.KSRaw
			switch pp.ClassicalAlgorithm() {
			case compositemldsa.Ed25519:
				cp, err := ed25519.NewParameters(ed25519.VariantNoPrefix)
				must(err)
				cls, err = ByName("Ed25519").Keys(&cp, raw, 0, th)
				must(err)
			case compositemldsa.ECDSAP256, compositemldsa.ECDSAP384, compositemldsa.ECDSAP521:
				cv := map[compositemldsa.ClassicalAlgorithm]ecdsa.CurveType{compositemldsa.ECDSAP256: ecdsa.NistP256, compositemldsa.ECDSAP384: ecdsa.NistP384, compositemldsa.ECDSAP521: ecdsa.NistP521}[pp.ClassicalAlgorithm()]
				hs := map[compositemldsa.ClassicalAlgorithm]ecdsa.HashType{compositemldsa.ECDSAP256: ecdsa.SHA256, compositemldsa.ECDSAP384: ecdsa.SHA384, compositemldsa.ECDSAP521: ecdsa.SHA512}[pp.ClassicalAlgorithm()]
				cp, err := ecdsa.NewParameters(cv, hs, ecdsa.DER, ecdsa.VariantNoPrefix)
				must(err)
				cls, err = ByName("Ecdsa").Keys(cp, raw, 0, th)
				must(err)
			case compositemldsa.RSA3072PSS, compositemldsa.RSA4096PSS:
				bits, hs, salt := 3072, rsassapss.SHA256, 32
				if pp.ClassicalAlgorithm() == compositemldsa.RSA4096PSS {
					bits, hs, salt = 4096, rsassapss.SHA384, 48
				}
				cp, err := rsassapss.NewParameters(rsassapss.ParametersValues{ModulusSizeBits: bits, SigHashType: hs, MGF1HashType: hs, PublicExponent: 65537, SaltLengthBytes: salt}, rsassapss.VariantNoPrefix)
				must(err)
				cls, err = ByName("RsaSsaPss").Keys(cp, raw, 0, th)
				must(err)
			case compositemldsa.RSA3072PKCS1, compositemldsa.RSA4096PKCS1:
				bits, hs := 3072, rsassapkcs1.SHA256
				if pp.ClassicalAlgorithm() == compositemldsa.RSA4096PKCS1 {
					bits, hs = 4096, rsassapkcs1.SHA384
				}
				cp, err := rsassapkcs1.NewParameters(bits, hs, 65537, rsassapkcs1.VariantNoPrefix)
				must(err)
				cls, err = ByName("RsaSsaPkcs1").Keys(cp, raw, 0, th)
				must(err)
			default:
				return nil, nil
			}
			mls := mldsaShapes(inst, th)
			var out []*KeyCase
			for i, c := range cls {
				if !th && i >= 2 {
					break
				}
				ml := mls[i%len(mls)]
				mlPub, err := mldsa.NewPublicKey(ml.Pub, 0, mlp)
				if err != nil {
					return nil, err
				}
				mlPriv, err := mldsa.NewPrivateKey(sb(ml.Seed), 0, mlp)
				if err != nil {
					return nil, err
				}
				pub, err := compositemldsa.NewPublicKey(mlPub, c.Pub, idFor(v, id), pp)
				if err != nil {
					return nil, err
				}
				k, err := compositemldsa.NewPrivateKey(mlPriv, c.Key, idFor(v, id), pp)
				if err != nil {
					return nil, err
				}
				mats := append([]Mat{{Name: "mldsa-seed", B: ml.Seed, Secret: true}, {Name: "mldsa-public", B: ml.Pub}}, c.Mat...)
				out = append(out, &KeyCase{Fam: f, P: p, Variant: v, ID: idFor(v, id), Key: k, Pub: pub, Mat: mats,
					Desc: fmt.Sprintf("CompositeMlDsa classical=%d mldsa=%d %v id=%#x [%s | mldsa %s]", pp.ClassicalAlgorithm(), inst, v, idFor(v, id), c.Desc, ml.Shape)})
			}
			return out, nil
		}
		f.Rep = func(i int) (key.Parameters, ref.KSVariant) {
			vs := []int{1, 2}
			v := vs[i%2]
			p, err := compositemldsa.NewParameters(compositemldsa.Ed25519, compositemldsa.MLDSA65, compositemldsa.Variant(v))
			must(err)
			return p, var3[v]
		}
		register(f)
	}
}
