package keycat

import (
	"bytes"
	"errors"
	"fmt"
	"io"
	"strings"
	"sync"

	"google.golang.org/protobuf/proto"

	"github.com/tink-crypto/tink-go/v2/aead"
	"github.com/tink-crypto/tink-go/v2/aead/aesgcm"
	"github.com/tink-crypto/tink-go/v2/core/registry"
	"github.com/tink-crypto/tink-go/v2/daead"
	"github.com/tink-crypto/tink-go/v2/hybrid"
	"github.com/tink-crypto/tink-go/v2/insecurecleartextkeyset"
	"github.com/tink-crypto/tink-go/v2/jwt"
	"github.com/tink-crypto/tink-go/v2/keyderivation"
	"github.com/tink-crypto/tink-go/v2/keyset"
	"github.com/tink-crypto/tink-go/v2/mac"
	"github.com/tink-crypto/tink-go/v2/prf"
	"github.com/tink-crypto/tink-go/v2/signature"
	"github.com/tink-crypto/tink-go/v2/streamingaead"
	"github.com/tink-crypto/tink-go/v2/tink"
	"verif/ref"
)

// ErrNoPrimitive: the ORIGINAL handle cannot produce a primitive of the class (mixed classes, no
// enabled usable key, type without a registered primitive constructor): interoperability is undefined.
var ErrNoPrimitive = errors.New("original handle yields no primitive")

type fakeKMS struct{ a tink.AEAD }

func (f *fakeKMS) Supported(uri string) bool { return strings.HasPrefix(uri, "fake-kms://") }
func (f *fakeKMS) GetAEAD(uri string) (tink.AEAD, error) {
	if !f.Supported(uri) {
		return nil, errors.New("fake kms: unsupported uri")
	}
	return f.a, nil
}

var kmsOnce sync.Once

// RegisterFakeKMS registers the KMS client behind FakeKMSURI (an in-memory AES-256-GCM key).
func RegisterFakeKMS() {
	kmsOnce.Do(func() {
		p, err := aesgcm.NewParameters(aesgcm.ParametersOpts{KeySizeInBytes: 32, IVSizeInBytes: 12, TagSizeInBytes: 16, Variant: aesgcm.VariantNoPrefix})
		must(err)
		k, err := aesgcm.NewKey(sb(ref.KeyBytes("fake-kms-kek", 32)), 0, p)
		must(err)
		a, err := aesgcm.NewAEAD(k)
		must(err)
		registry.RegisterKMSClient(&fakeKMS{a})
	})
}

var (
	msg  = []byte("interoperability probe message \x00\x01\x02")
	ctxd = []byte("context info / associated data")
)

func orig(err error) error { return fmt.Errorf("%w: %v", ErrNoPrimitive, err) }

// Interop checks that the primitives of handle x (original) and handle y (copy) accept each other's
// outputs. twin is the private keyset matching x when x is a public keyset (else nil).
func Interop(c Class, x, y, twin *keyset.Handle) error {
	switch c {
	case ClassAEAD:
		a, err := aead.New(x)
		if err != nil {
			return orig(err)
		}
		b, err := aead.New(y)
		if err != nil {
			return fmt.Errorf("copy: aead.New: %v", err)
		}
		for i, pr := range [][2]tink.AEAD{{a, b}, {b, a}} {
			ct, err := pr[0].Encrypt(msg, ctxd)
			if err != nil {
				if i == 0 {
					return orig(err)
				}
				return fmt.Errorf("copy Encrypt: %v", err)
			}
			pt, err := pr[1].Decrypt(ct, ctxd)
			if err != nil || !bytes.Equal(pt, msg) {
				return fmt.Errorf("direction %d: Decrypt of the other side's ciphertext: %v", i, err)
			}
		}
	case ClassDAEAD:
		a, err := daead.New(x)
		if err != nil {
			return orig(err)
		}
		b, err := daead.New(y)
		if err != nil {
			return fmt.Errorf("copy: daead.New: %v", err)
		}
		c1, err := a.EncryptDeterministically(msg, ctxd)
		if err != nil {
			return orig(err)
		}
		c2, err := b.EncryptDeterministically(msg, ctxd)
		if err != nil || !bytes.Equal(c1, c2) {
			return fmt.Errorf("deterministic ciphertexts differ (%v)", err)
		}
		if pt, err := b.DecryptDeterministically(c1, ctxd); err != nil || !bytes.Equal(pt, msg) {
			return fmt.Errorf("copy cannot decrypt: %v", err)
		}
	case ClassMAC:
		a, err := mac.New(x)
		if err != nil {
			return orig(err)
		}
		b, err := mac.New(y)
		if err != nil {
			return fmt.Errorf("copy: mac.New: %v", err)
		}
		t1, err := a.ComputeMAC(msg)
		if err != nil {
			return orig(err)
		}
		t2, err := b.ComputeMAC(msg)
		if err != nil || !bytes.Equal(t1, t2) {
			return fmt.Errorf("tags differ: %x vs %x (%v)", t1, t2, err)
		}
		if err := b.VerifyMAC(t1, msg); err != nil {
			return fmt.Errorf("copy rejects original's tag: %v", err)
		}
		if err := a.VerifyMAC(t2, msg); err != nil {
			return fmt.Errorf("original rejects copy's tag: %v", err)
		}
	case ClassPRF:
		a, err := prf.NewPRFSet(x)
		if err != nil {
			return orig(err)
		}
		b, err := prf.NewPRFSet(y)
		if err != nil {
			return fmt.Errorf("copy: prf.NewPRFSet: %v", err)
		}
		if a.PrimaryID != b.PrimaryID || len(a.PRFs) != len(b.PRFs) {
			return fmt.Errorf("PRF sets differ: primary %d/%d size %d/%d", a.PrimaryID, b.PrimaryID, len(a.PRFs), len(b.PRFs))
		}
		for id, pa := range a.PRFs {
			pb, ok := b.PRFs[id]
			if !ok {
				return fmt.Errorf("copy lacks PRF %d", id)
			}
			o1, err := pa.ComputePRF(msg, 16)
			if err != nil {
				return orig(err)
			}
			o2, err := pb.ComputePRF(msg, 16)
			if err != nil || !bytes.Equal(o1, o2) {
				return fmt.Errorf("PRF %d outputs differ (%v)", id, err)
			}
		}
	case ClassStreaming:
		a, err := streamingaead.New(x)
		if err != nil {
			return orig(err)
		}
		b, err := streamingaead.New(y)
		if err != nil {
			return fmt.Errorf("copy: streamingaead.New: %v", err)
		}
		long := bytes.Repeat(msg, 20)
		for i, pr := range [][2]tink.StreamingAEAD{{a, b}, {b, a}} {
			var buf bytes.Buffer
			w, err := pr[0].NewEncryptingWriter(&buf, ctxd)
			if err != nil {
				if i == 0 {
					return orig(err)
				}
				return fmt.Errorf("copy NewEncryptingWriter: %v", err)
			}
			if _, err := w.Write(long); err != nil {
				return fmt.Errorf("write: %v", err)
			}
			if err := w.Close(); err != nil {
				return fmt.Errorf("close: %v", err)
			}
			r, err := pr[1].NewDecryptingReader(bytes.NewReader(buf.Bytes()), ctxd)
			if err != nil {
				return fmt.Errorf("direction %d NewDecryptingReader: %v", i, err)
			}
			pt, err := io.ReadAll(r)
			if err != nil || !bytes.Equal(pt, long) {
				return fmt.Errorf("direction %d: decryption of the other side's stream: %v", i, err)
			}
		}
	case ClassSign, ClassVerify:
		sx, sy := x, y
		if c == ClassVerify {
			sx, sy = twin, twin
		}
		vx, vy := x, y
		if c == ClassSign {
			var err error
			if vx, err = x.Public(); err != nil {
				return orig(err)
			}
			if vy, err = y.Public(); err != nil {
				return fmt.Errorf("copy Public(): %v", err)
			}
		}
		s1, err := signature.NewSigner(sx)
		if err != nil {
			return orig(err)
		}
		v1, err := signature.NewVerifier(vx)
		if err != nil {
			return orig(err)
		}
		s2, err := signature.NewSigner(sy)
		if err != nil {
			return fmt.Errorf("copy: NewSigner: %v", err)
		}
		v2, err := signature.NewVerifier(vy)
		if err != nil {
			return fmt.Errorf("copy: NewVerifier: %v", err)
		}
		sig1, err := s1.Sign(msg)
		if err != nil {
			return orig(err)
		}
		if err := v1.Verify(sig1, msg); err != nil {
			return orig(err)
		}
		if err := v2.Verify(sig1, msg); err != nil {
			return fmt.Errorf("copy's verifier rejects original's signature: %v", err)
		}
		if c == ClassSign {
			sig2, err := s2.Sign(msg)
			if err != nil {
				return fmt.Errorf("copy Sign: %v", err)
			}
			if err := v1.Verify(sig2, msg); err != nil {
				return fmt.Errorf("original's verifier rejects copy's signature: %v", err)
			}
		}
	case ClassHybridDecrypt, ClassHybridEncrypt:
		dx, dy := x, y
		if c == ClassHybridEncrypt {
			dx, dy = twin, twin
		}
		ex, ey := x, y
		if c == ClassHybridDecrypt {
			var err error
			if ex, err = x.Public(); err != nil {
				return orig(err)
			}
			if ey, err = y.Public(); err != nil {
				return fmt.Errorf("copy Public(): %v", err)
			}
		}
		e1, err := hybrid.NewHybridEncrypt(ex)
		if err != nil {
			return orig(err)
		}
		d1, err := hybrid.NewHybridDecrypt(dx)
		if err != nil {
			return orig(err)
		}
		e2, err := hybrid.NewHybridEncrypt(ey)
		if err != nil {
			return fmt.Errorf("copy: NewHybridEncrypt: %v", err)
		}
		d2, err := hybrid.NewHybridDecrypt(dy)
		if err != nil {
			return fmt.Errorf("copy: NewHybridDecrypt: %v", err)
		}
		c1, err := e1.Encrypt(msg, ctxd)
		if err != nil {
			return orig(err)
		}
		if pt, err := d1.Decrypt(c1, ctxd); err != nil || !bytes.Equal(pt, msg) {
			return orig(fmt.Errorf("self decrypt: %v", err))
		}
		if pt, err := d2.Decrypt(c1, ctxd); err != nil || !bytes.Equal(pt, msg) {
			return fmt.Errorf("copy cannot decrypt original's ciphertext: %v", err)
		}
		c2, err := e2.Encrypt(msg, ctxd)
		if err != nil {
			return fmt.Errorf("copy Encrypt: %v", err)
		}
		if pt, err := d1.Decrypt(c2, ctxd); err != nil || !bytes.Equal(pt, msg) {
			return fmt.Errorf("original cannot decrypt copy's ciphertext: %v", err)
		}
	case ClassJWTMAC:
		a, err := jwt.NewMAC(x)
		if err != nil {
			return orig(err)
		}
		b, err := jwt.NewMAC(y)
		if err != nil {
			return fmt.Errorf("copy: jwt.NewMAC: %v", err)
		}
		raw, val := jwtProbe()
		t1, err := a.ComputeMACAndEncode(raw)
		if err != nil {
			return orig(err)
		}
		t2, err := b.ComputeMACAndEncode(raw)
		if err != nil || t1 != t2 {
			return fmt.Errorf("compact tokens differ: %q vs %q (%v)", t1, t2, err)
		}
		if _, err := b.VerifyMACAndDecode(t1, val); err != nil {
			return fmt.Errorf("copy rejects original's token: %v", err)
		}
		if _, err := a.VerifyMACAndDecode(t2, val); err != nil {
			return fmt.Errorf("original rejects copy's token: %v", err)
		}
	case ClassJWTSign, ClassJWTVerify:
		sx, sy := x, y
		if c == ClassJWTVerify {
			sx, sy = twin, twin
		}
		vx, vy := x, y
		if c == ClassJWTSign {
			var err error
			if vx, err = x.Public(); err != nil {
				return orig(err)
			}
			if vy, err = y.Public(); err != nil {
				return fmt.Errorf("copy Public(): %v", err)
			}
		}
		s1, err := jwt.NewSigner(sx)
		if err != nil {
			return orig(err)
		}
		v1, err := jwt.NewVerifier(vx)
		if err != nil {
			return orig(err)
		}
		s2, err := jwt.NewSigner(sy)
		if err != nil {
			return fmt.Errorf("copy: jwt.NewSigner: %v", err)
		}
		v2, err := jwt.NewVerifier(vy)
		if err != nil {
			return fmt.Errorf("copy: jwt.NewVerifier: %v", err)
		}
		raw, val := jwtProbe()
		t1, err := s1.SignAndEncode(raw)
		if err != nil {
			return orig(err)
		}
		if _, err := v1.VerifyAndDecode(t1, val); err != nil {
			return orig(err)
		}
		if _, err := v2.VerifyAndDecode(t1, val); err != nil {
			return fmt.Errorf("copy's verifier rejects original's token: %v", err)
		}
		if c == ClassJWTSign {
			t2, err := s2.SignAndEncode(raw)
			if err != nil {
				return fmt.Errorf("copy SignAndEncode: %v", err)
			}
			if _, err := v1.VerifyAndDecode(t2, val); err != nil {
				return fmt.Errorf("original's verifier rejects copy's token: %v", err)
			}
		}
	case ClassDeriver:
		a, err := keyderivation.New(x)
		if err != nil {
			return orig(err)
		}
		b, err := keyderivation.New(y)
		if err != nil {
			return fmt.Errorf("copy: keyderivation.New: %v", err)
		}
		h1, err := a.DeriveKeyset(ctxd)
		if err != nil {
			return orig(err)
		}
		h2, err := b.DeriveKeyset(ctxd)
		if err != nil {
			return fmt.Errorf("copy DeriveKeyset: %v", err)
		}
		if !proto.Equal(insecurecleartextkeyset.KeysetMaterial(h1), insecurecleartextkeyset.KeysetMaterial(h2)) {
			return errors.New("derived keysets differ")
		}
	default:
		return orig(errors.New("no primitive class"))
	}
	return nil
}

func jwtProbe() (*jwt.RawJWT, *jwt.Validator) {
	sub := "verif-subject"
	raw, err := jwt.NewRawJWT(&jwt.RawJWTOptions{Subject: &sub, WithoutExpiration: true})
	must(err)
	val, err := jwt.NewValidator(&jwt.ValidatorOpts{AllowMissingExpiration: true})
	must(err)
	return raw, val
}
